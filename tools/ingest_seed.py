#!/venv/bin/python
"""Confirm an independently produced breaking change and keep it under /verif/seeded/<id>/.

usage: tools/ingest_seed.py <PROP> <src_dir> <seed_id> [--needs "..."] [--runs N]

Confirms, in a scratch git worktree of /repo (removed afterwards):
  * the demonstration exits 0 on the unchanged tree,
  * the patch applies, and the demonstration exits non-zero with it,
  * the pinned test-suite (BASELINE.json stable_pass) still passes with the patch applied.
Then copies patch.diff + the demonstration (+ notes) and writes meta.json.  Nothing is ever applied to /repo.
"""
import json, os, shutil, subprocess, sys, tempfile, xml.etree.ElementTree as ET

V = os.path.dirname(os.path.dirname(os.path.abspath(__file__)))
PY = "/venv/bin/python"


def sh(cmd, cwd=None, env=None, timeout=3000):
    r = subprocess.run(cmd, cwd=cwd, env=env, stdout=subprocess.PIPE, stderr=subprocess.STDOUT, timeout=timeout)
    return r.returncode, r.stdout.decode(errors="replace")


def main():
    prop, src, sid = sys.argv[1:4]
    needs = ""
    runs = None
    skip_tests = "--skip-tests" in sys.argv
    if "--needs" in sys.argv:
        needs = sys.argv[sys.argv.index("--needs") + 1]
    if "--runs" in sys.argv:
        runs = int(sys.argv[sys.argv.index("--runs") + 1])
    demo = [f for f in sorted(os.listdir(src)) if f.startswith("demo") and f.endswith(".py")]
    if not demo or not os.path.exists(os.path.join(src, "patch.diff")):
        print("missing demo.py or patch.diff in", src); return 2
    demo = demo[0]
    wt = tempfile.mkdtemp(prefix="wt-ingest-", dir="/var/tmp")
    os.rmdir(wt)
    rc, out = sh(["git", "-C", "/repo", "worktree", "add", "-q", wt, "HEAD"])
    if rc:
        print(out); return 2
    ran = []
    try:
        env = dict(os.environ, PYTHONPATH=wt, PYTHONDONTWRITEBYTECODE="1")
        # the demo may hard-code its author's worktree: run a copy with that path rewritten
        text = open(os.path.join(src, demo)).read()
        for old in ("/tmp/wt-%s" % prop, "/tmp/wt2-%s" % prop, "/tmp/wt3-%s" % prop, "/tmp/wt4-%s" % prop, "/tmp/wt5-%s" % prop, "/tmp/wt6-%s" % prop):
            text = text.replace(old, wt)
        dpath = os.path.join(wt, "_verif_demo.py")
        open(dpath, "w").write(text)
        rc0, out0 = sh([PY, dpath], cwd=wt, env=env, timeout=600)
        ran.append("demo on unchanged tree: exit %d" % rc0)
        if rc0 != 0:
            print("REJECT: demo fails on the unchanged tree\n" + out0[-1500:]); return 1
        rc, out = sh(["git", "-C", wt, "apply", "--exclude=_verif_demo.py", os.path.abspath(os.path.join(src, "patch.diff"))])
        if rc:
            print("REJECT: patch does not apply\n" + out); return 1
        rc, changed = sh(["git", "-C", wt, "diff", "--name-only"])
        files = [f for f in changed.split() if f]
        if any(not f.startswith("insights/") or "/tests/" in f for f in files):
            print("REJECT: patch touches %s" % files); return 1
        rc1, out1 = sh([PY, dpath], cwd=wt, env=env, timeout=600)
        ran.append("demo with patch: exit %d" % rc1)
        if rc1 == 0:
            print("REJECT: demo passes with the patch applied"); return 1
        os.remove(dpath)
        if not skip_tests:
            junit = os.path.join(wt, "_junit.xml")
            rc, out = sh([PY, "-m", "pytest", "-ra", "-q", "-p", "no:cacheprovider", "--timeout=900", "--continue-on-collection-errors",
                          "--junitxml=" + junit], cwd=wt, env=dict(os.environ, PYTHONDONTWRITEBYTECODE="1"), timeout=3000)
            b = json.load(open("/root/.vp/BASELINE.json"))
            stable = set(b["stable_pass"])
            res = {}
            for tc in ET.parse(junit).getroot().iter("testcase"):
                name = "%s::%s" % (tc.get("classname"), tc.get("name"))
                res[name] = "fail" if any(ch.tag in ("failure", "error") for ch in tc) else ("skip" if any(ch.tag == "skipped" for ch in tc) else "pass")
            reg = sorted(n for n in stable if res.get(n) != "pass")
            if reg and len(reg) <= 25:
                # other people run the same suite concurrently and some tests use fixed names under /tmp: re-run the
                # apparent regressions alone (twice at most) before believing them
                for _ in range(2):
                    ids = []
                    for n in reg:
                        cls, name = n.split("::", 1)
                        ids.append(cls.replace(".", "/") + ".py::" + name)
                    j2 = os.path.join(wt, "_junit2.xml")
                    sh([PY, "-m", "pytest", "-q", "-p", "no:cacheprovider", "--timeout=900", "--junitxml=" + j2] + ids, cwd=wt,
                       env=dict(os.environ, PYTHONDONTWRITEBYTECODE="1"), timeout=3000)
                    still = []
                    res2 = {}
                    for tc in ET.parse(j2).getroot().iter("testcase"):
                        nm = "%s::%s" % (tc.get("classname"), tc.get("name"))
                        res2[nm] = "fail" if any(ch.tag in ("failure", "error") for ch in tc) else "pass"
                    reg = [n for n in reg if res2.get(n) != "pass"]
                    if not reg:
                        break
            ran.append("pinned test-suite with patch: %d/%d stable tests pass" % (len(stable) - len(reg), len(stable)))
            if reg:
                print("REJECT: existing tests fail with the patch: %s" % reg[:8]); return 1
        dst = os.path.join(V, "seeded", sid)
        os.makedirs(dst, exist_ok=True)
        shutil.copy(os.path.join(src, "patch.diff"), os.path.join(dst, "patch.diff"))
        shutil.copy(os.path.join(src, demo), os.path.join(dst, "demo.py"))
        if os.path.exists(os.path.join(src, "notes.md")):
            shutil.copy(os.path.join(src, "notes.md"), os.path.join(dst, "notes.md"))
        meta = {"property": prop, "id": sid, "source": "fresh sub-agent given only the property text and its own worktree of /repo",
                "files": files, "needs": needs, "confirmed": ran, "demo_output_with_patch": out1[-600:], "runs": runs,
                "demo_cmd": "cd <worktree> && PYTHONPATH=<worktree> /venv/bin/python demo.py  (exit 0 unchanged, non-zero with patch.diff applied)"}
        json.dump(meta, open(os.path.join(dst, "meta.json"), "w"), indent=1)
        print("KEPT %s: %s" % (sid, "; ".join(ran)))
        return 0
    finally:
        sh(["git", "-C", "/repo", "worktree", "remove", "--force", wt])
        sh(["git", "-C", "/repo", "worktree", "prune"])


if __name__ == "__main__":
    sys.exit(main())
