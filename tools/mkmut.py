#!/venv/bin/python
"""Generate /verif/mutants/*.patch + index.json from (file, old, new) edit specs in mutants/specs.py.

Hand-written sensitivity corpus: each entry is a small, plausible change to insights-core that breaks one
property.  Reverse patches of the fix: commits (rev-*.patch) are kept next to them and listed in specs.EXTRA.
"""
import difflib, json, os, sys
sys.path.insert(0, os.path.dirname(os.path.dirname(os.path.abspath(__file__))))
REPO = os.environ.get("VERIF_REPO", "/repo")
from mutants.specs import SPECS, EXTRA

def main():
    out = os.path.join(os.path.dirname(os.path.dirname(os.path.abspath(__file__))), "mutants")
    index = list(EXTRA)
    for m in SPECS:
        diffs = []
        for f, old, new in m["edits"]:
            src = open(os.path.join(REPO, f)).read()
            if src.count(old) != 1:
                print("!! %s: pattern occurs %d times in %s" % (m["name"], src.count(old), f)); diffs = None; break
            dst = src.replace(old, new)
            diffs.append("".join(difflib.unified_diff(src.splitlines(True), dst.splitlines(True), "a/" + f, "b/" + f)))
        if diffs is None:
            continue
        with open(os.path.join(out, m["name"] + ".patch"), "w") as fh:
            fh.write("".join(diffs))
        index.append({"name": m["name"], "patch": m["name"] + ".patch", "property": m["property"], "why": m["why"],
                      "runs": m.get("runs"), "expect": m.get("expect", "violation")})
    json.dump(index, open(os.path.join(out, "index.json"), "w"), indent=1)
    print("wrote %d mutants" % len(index))
main()
