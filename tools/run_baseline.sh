#!/bin/bash
# Run the pinned baseline test command (guard off) and compare with BASELINE.json's stable_pass list.
out=${1:-/var/tmp/verif-baseline}
mkdir -p $out
cd /repo && /venv/bin/python -m pytest -ra -q -p no:cacheprovider --timeout=900 --continue-on-collection-errors --junitxml=$out/junit.xml > $out/log.txt 2>&1
/venv/bin/python - "$out" <<'PY'
import json, sys, xml.etree.ElementTree as ET
out = sys.argv[1]
b = json.load(open('/root/.vp/BASELINE.json'))
stable = set(b['stable_pass'])
res = {}
for tc in ET.parse(out + '/junit.xml').getroot().iter('testcase'):
    name = "%s::%s" % (tc.get('classname'), tc.get('name'))
    bad = any(ch.tag in ('failure', 'error') for ch in tc)
    skipped = any(ch.tag == 'skipped' for ch in tc)
    res[name] = 'fail' if bad else ('skip' if skipped else 'pass')
missing = sorted(n for n in stable if res.get(n) != 'pass')
print("stable_pass=%d now_passing=%d regressions=%d" % (len(stable), len(stable) - len(missing), len(missing)))
for n in missing[:40]:
    print("  REGRESSION", n, res.get(n))
PY
