#!/bin/bash
# usage: tools/trypatch.sh <PROP> <patch.diff> [wall]   -- run the quick check of PROP on a scratch copy of /repo/insights with the patch applied
set -e
d=$(mktemp -d /var/tmp/verif-try-XXXXXX)
cp -r /repo/insights "$d/insights"
find "$d" -name __pycache__ -prune -exec rm -rf {} + 2>/dev/null || true
patch -p1 -s -d "$d" -i "$2"
set +e
VERIF_REPO=$d VERIF_EVIDENCE_DIR=$d/evidence VERIF_REPLAY_DIR=$d/replays /verif/check "$1" --tier quick --wall "${3:-40}" 2>&1 | grep -vE "^KNOWN|^stats=" | cut -c1-500 | tail -12
rc=${PIPESTATUS[0]}
rm -rf "$d"
echo "rc=$rc"
