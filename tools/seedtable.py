#!/usr/bin/env python3
"""Regenerate the table of section 8.7 of DESIGN.md from seeded/*/meta.json (one row per kept change)."""
import glob, json, os, re

V = os.path.dirname(os.path.dirname(os.path.abspath(__file__)))
rows = []
for d in sorted(glob.glob(os.path.join(V, "seeded", "*"))):
    mp = os.path.join(d, "meta.json")
    if not os.path.exists(mp):
        continue
    m = json.load(open(mp))
    cell = lambda x: str(x or "").replace("|", "/").replace("\n", " ")
    rows.append("| %s | %s | %s | %s | %s |" % (os.path.basename(d), m["property"], m.get("round", "?"), cell(m.get("needs")), cell(m.get("detection"))))
p = os.path.join(V, "DESIGN.md")
s = open(p).read()
head = "| seeded change | property | round | needs to manifest | detection |\n|---|---|---|---|---|\n"
a = s.index(head) + len(head)
b = a
while s[b:b + 1] == "|":
    b = s.index("\n", b) + 1
s = s[:a] + "\n".join(rows) + "\n" + s[b:]
open(p, "w").write(s)
print("%d rows" % len(rows))
