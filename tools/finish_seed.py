#!/venv/bin/python
"""usage: tools/finish_seed.py <seed-id> <round> <detection text>  -- record round + detection in seeded/<id>/meta.json"""
import json, os, sys
V = os.path.dirname(os.path.dirname(os.path.abspath(__file__)))
p = os.path.join(V, "seeded", sys.argv[1], "meta.json")
m = json.load(open(p))
m["round"] = int(sys.argv[2])
m["detection"] = sys.argv[3]
json.dump(m, open(p, "w"), indent=1)
print("ok", sys.argv[1])
