#!/venv/bin/python
"""Regenerate /verif/MANIFEST.json from the table below (kept in one place so it stays valid)."""
import json, os
V = os.path.dirname(os.path.dirname(os.path.abspath(__file__)))

LEVEL = ("seeded search over simulated executions (exploration): every run is a pure function of (VERIF_SEED, run index, "
         "code); a clean batch is evidence, not proof. ")
CHECKS = {
 "C01": ("w1", "3.C01", "real dr/toposort drivers on generated programs under seeded tie-breaks, forced linear extensions and SimPool "
         "schedules; event-order invariants (at most once, after dependencies attempted, seeds kept) checked on the global event sequence; histories inside one process: part of the program ordered with dr.run_order before the evaluation; "
         "two SimPool tasks asking for dependency graphs with overlapping closures at once (the order derived from each caller's graph must respect every declared dependency)",
         "deterministic simulation: seeded scheduler (seeded __hash__ tie-breaks, forced linear extensions, SimPool thread interleavings) + fault plan; event-order invariants"),
 "C02": ("w1", "3.C02", "real decorators and drivers on generated programs x outcome plans x enable/disable configurations; every invocation, "
         "argument tuple and missing-requirements report compared with an executable reference model; histories inside one process: a component "
         "body flipping the enabled switch of a down-stream component mid-run, one broker evaluated twice with components switched on in between",
         "deterministic simulation: generated programs x fault plans x enable configurations; reference-model oracle for firing and positional binding"),
 "C03": ("w1", "3.C03", "fault injection (skip, content error, failed command, raised and alarm-delivered timeout via SimClock/SimSignal, arbitrary "
         "exceptions, per-element faults, failing observers) on any subset of components; final values, exception attribution, tracebacks "
         "and observer firing compared with the reference model",
         "deterministic simulation with fault injection: fault plans over components/elements/observers + simulated SIGALRM on a simulated clock; reference-model oracle"),
 "C04": ("w1", "3.C04", "the same program evaluated by nine drivers (engine order, forced extensions, incremental, run_all, fresh-broker variants, "
         "two seeded SimPool schedules, address-hash order; in 20% after part of the program was ordered with dr.run_order) in two interpreters with different PYTHONHASHSEED; all signatures must agree with "
         "each other and the model; get_subgraphs checked to be an exact edge-closed partition",
         "deterministic simulation: one program under many seeded schedules (linear extensions, sub-graph dispatch, SimPool interleavings, hash seeds); signature equality + reference model"),
 "C05": ("w1s", "3.C05", "histories of spec-set class definitions created through the real SpecSetMeta (implementations bound to one context, a "
         "list of contexts or a helper datasource), every active context and outcome per implementation, evaluated by the real engine; "
         "overrides built on top of the implementation they override, second-level classes, evaluations in the middle of the history, debug logging on/off, contexts in a sub-class relation; "
         "oracle: latest registered implementation for the active context supplies the spec, overridden and foreign-context implementations never run",
         "deterministic simulation: generated registration histories x active context x outcome plan under seeded engine order; reference model of the resolution rule"),
 "C06": ("w2", "3.C06", "host collection mirrored with the real apply_blacklist / factories / Hydration / run_all on a simulated host (real directory tree with "
         "symlink chains, '..' paths, a sibling sharing the root's name as prefix; command table behind a HostContext subclass) under an audit-hook "
         "monitor: containment of every FileProvider, no open / Popen / executed command matching the deny list across all nine factories, every "
         "write between persister registration and the end of run_all beneath the output directory (+ before/after walk); deny lists mixing literal "
         "entries with symbolic spec names; a layout history seen by one context object (a directory replaced by a link leaving the root, second evaluation); discovered file names containing $NAME; "
         "cold-process cases (W2c): the real collect() entered in a fresh child interpreter that has or has not imported insights.specs.default, shipped default specs on a recording HostContext",
         "deterministic simulation: generated host layouts x deny lists x spec sets over all factories, seeded engine order, audit-hook I/O monitor; containment / never-opened / never-executed / writes-beneath-output invariants"),
 "C07": ("w4", "3.C07", "histories of filter registrations / look-ups / late component definitions against the real registry with a reference "
         "model consulted after every look-up; then the filters in force applied to generated content through six paths (host file + real grep, "
         "host command pipeline + real grep, archive post-filter, Cleaner allow-list, filter_content, apply_filters) with the line-level laws checked on each; "
         "two concurrent callers of one Cleaner with different allow-lists as SimPool tasks (pre-empted inside insights/cleaner), each result held to the laws "
         "and to the result of a lone call; fault-injecting configuration (10%): the grep sub-process of the host pre-filter cannot be started (E2BIG/ENOMEM/EAGAIN/ENOENT/EACCES at Popen) "
         "or the file is rotated away between validate() and load() -- the spec may be absent, never wrong",
         "deterministic simulation: generated registration/look-up/definition histories against a reference registry model + real grep processes on a scratch tree; line-level filter laws"),
 "C08": ("w3", "3.C08", "histories of specs through one stateful Cleaner under generated configurations; planted sensitive tokens (patterns, keywords, "
         "password secrets, IPv4, host names, MACs) must not survive unless exempt or equal to a substitute the obfuscator had already issued at that "
         "point of the history (read from its own mapping()); with obfuscation off (when collect() uses its thread pool) the specs of a history are "
         "cleaned by concurrent SimPool tasks sharing the one Cleaner; 3% end-to-end share: the same content collected on a simulated host (serial or pooled)",
         "deterministic simulation: generated spec histories through one stateful cleaner x configuration x per-spec exemptions, each run replicated under a second hash seed; history-dependent non-leak oracle"),
 "C09": ("w3", "3.C09", "differential oracle over whole histories: every input line rebuilt with the mapping the cleaner reports must equal the cleaner's "
         "output across all specs; injectivity; no phantom originals; the facts file written by generate_rhsm_facts carries the same pairs; separate "
         "collision regime plants originals equal to issued substitutes, mac-chain regime an original MAC equal to the substitute of another; "
         "IPv6 addresses in several notations (same address, same substitute address); width-mode specs; another cleaner built mid-history",
         "deterministic simulation: recurrence-forcing histories through one stateful cleaner; differential oracle against the reported mapping + reference reconstruction"),
 "C10": ("w3", "3.C10", "every case executed by two interpreters that differ only in PYTHONHASHSEED (the schedule this property quantifies over) and "
         "compared; application order of the obfuscators observed per line and required to follow one total order; marker-based order / one-to-one / "
         "empty-collapse checks (content list, single string and file entry points); concurrent callers of one Cleaner compared with the same calls "
         "one after the other; end-to-end share: the same collection three times in one process must store the same content, filter budgets that "
         "run out compared across hash seeds; MAX_LINE_LENGTH as a knob; a fresh cleaner probed before and after a history",
         "deterministic simulation: the process hash seed as the schedule (each case under >= 2 seeds, 16 seeds per batch), instrumented application order; cross-run equality"),
 "C11": ("w2", "3.C11", "collect into an archive, then load it with the real initialize_broker/hydrate in a fresh broker; fault sequences during persist "
         "(n-th write-open / mkdir fails with ENOSPC/EIO via audit hook, data write fails or is silently cut after k bytes, metadata dump fails midway) "
         "and corruption of any subset of stored entries between the two phases; strict field-by-field round trip for untouched entries, 'may be absent, "
         "never wrong' for damaged ones, load never raises; contents up to 24577 lines, user provider sub-classes; contents beginning with U+FEFF; histories: the archive directory "
         "used twice, the archive loaded through a re-pointed link",
         "deterministic simulation with fault injection: I/O faults at the n-th syscall during persist + torn/short writes + corruption of stored state between collect and load; round-trip oracle against what was persisted"),
 "C12": ("w1r", "3.C12", "generated rule sets (shared modules/keys/types, every return kind and constructor-argument shape and argument name, payloads around "
         "the size limit) under the real SingleEvaluator / InsightsEvaluator / JsonFormat, serial, incremental and on SimPool with seeded "
         "interleavings traced through evaluators.py; histories: evaluate, re-tag through apply_configs, evaluate again; content templates with "
         "render_content; counting oracle: each rule in exactly the predicted bucket, entry fields (key, component, tags, links), totals",
         "deterministic simulation: seeded SimPool interleavings of the evaluator observer + fault plans on rule bodies; exactly-one-outcome accounting against the reference model"),
 "C17": ("w5", "3.C17", "histories of client operations (identifier reads/regenerations, register/unregister/marker deletions) interleaved with "
         "environment events (among them a subscription-manager peer answering in any UUID spelling) and injected I/O faults (ENOSPC/EIO/EACCES/EROFS/EDQUOT/EPERM at the n-th open/remove), from every initial directory state, against the real helpers on a real scratch tree; "
         "invariants after every step: canonical + stable identifier, no rewrite by a read (audit-hook monitor), never both markers, planted symlinks replaced not followed",
         "deterministic simulation with fault injection: generated operation/environment histories + n-th-syscall I/O faults (audit hook), seeded uuid/clock/peer; invariants after every step"),
}
NA = [
  ("C13", "pure function of two (epoch, version, release) strings; no schedule, clock, fault or history for a simulator to own (DESIGN.md section 5)"),
  ("C14", "base parsers map an in-memory content list to an object or exception; time-based search compares against a caller-supplied timestamp, no clock is read (DESIGN.md section 5)"),
  ("C15", "table / key-value / INI helpers are pure text-to-data functions (DESIGN.md section 5)"),
  ("C16", "option resolution is a pure function of (argv, environ, one config text); nothing can interleave, time out or be interrupted (DESIGN.md section 5)"),
  ("C18", "digest is a pure function of the play; the property's observation point excludes GPG, the only process interaction nearby (DESIGN.md section 5)"),
  ("C19", "combinator semantics is a pure function of (grammar, input) (DESIGN.md section 5)"),
  ("C20", "query evaluation is a pure function of (tree, query, options) (DESIGN.md section 5)"),
]
ENGINES = {
 "w2": ("worlds/w2_collect.py", "W2: mirror of insights.collect.collect() + hydration on a simulated host (scratch tree, command table, audit-hook monitor / injector, seeded engine order)"),
 "w3": ("worlds/w3_cleaner.py", "W3: histories of typed-segment specs through one real Cleaner; hash seed owned by the runner"),
 "w4": ("worlds/w4_filters.py", "W4: filter registry histories on spec sets built through the real metaclass + content laws across the six filter application paths (real grep)"),
 "w5": ("worlds/w5_clientstate.py", "W5: client state directory histories on a scratch tree with seeded uuid/clock/RHSM peer and audit-hook I/O monitor + fault injector"),
 "w1s": ("worlds/w1_specs.py", "W1s: spec-set registration histories through the real SpecSetMeta, evaluated by the real engine"),
 "w1r": ("worlds/w1_rules.py", "W1r: real evaluators/formatters over W1 programs with rich rule return plans; insights.get_pool -> SimPool"),
 "w1": ("worlds/w1_engine.py", "W1: real dr/plugins engine on generated component programs under SimPool / SimClock / SimSignal with a reference model"),
}
PENDING = dict((p, "check not built yet in this revision of /verif (planned: DESIGN.md section 3); not claimed until it runs clean and is sensitivity-tested")
               for p in ("C05", "C06", "C07", "C08", "C09", "C10", "C11", "C12", "C17"))

def main():
    extra = json.load(open(os.path.join(V, "tools", "manifest_extra.json"))) if os.path.exists(os.path.join(V, "tools", "manifest_extra.json")) else {}
    checks = []
    for pid in sorted(CHECKS):
        eng, ref, text, tech = CHECKS[pid]
        checks.append({
            "property_id": pid,
            "quick_cmd": "./check %s --tier quick" % pid,
            "thorough_cmd": "./check %s --tier thorough" % pid,
            "evidence_file": "/verif/evidence/%s.json" % pid,
            "replay_cmd_template": "./check %s --replay {path}" % pid,
            "engine": eng,
            "level_claimed": {"category": "exploration", "text": LEVEL + text, "design_ref": "DESIGN.md section " + ref},
            "level_note": "trusted base: CPython 3.12, the kernel's path resolution, the reference models in /verif/worlds (cross-examined by "
                          "the sensitivity corpus in /verif/mutants and /verif/seeded), simkit's scheduler/clock; bounded sizes, sampled not enumerated",
            "technique": tech,
        })
    claimed = set(CHECKS)
    na = [{"property_id": p, "reason": r} for p, r in NA]
    for p, r in sorted(PENDING.items()):
        if p not in claimed:
            na.append({"property_id": p, "reason": r})
    doc = {
        "version": 1,
        "setup_cmd": "/venv/bin/python -c \"import sys; sys.path.insert(0, '/verif'); from simkit import bootstrap; print(bootstrap().__file__)\"",
        "hooks": {
            "guard": "REDHATINSIGHTS_INSIGHTS_CORE_VERIF",
            "enable": "no hook was added to /repo: every seam is an argument, a subclass or a module attribute (dr.time, plugins.signal, insights.get_pool, ...) patched by /verif/simkit at run time; the editable install means checks import /repo's working tree directly (VERIF_REPO overrides it for the sensitivity self-test)",
            "baseline_off_cmd": "cd /repo && /venv/bin/python -m pytest -ra -q -p no:cacheprovider --timeout=900 --continue-on-collection-errors",
            "source_commits": [],
            "add_only": True,
        },
        "engines": [{"name": k, "path": v[0], "kind_free_text": v[1], "serves_properties": sorted(p for p in CHECKS if CHECKS[p][0] == k)} for k, v in sorted(ENGINES.items())],
        "checks": checks,
        "not_applicable": na,
        "notes": "Self-tests: ./check selftest-determinism, ./check selftest-sensitivity. Known findings: /verif/known_findings.json (+ pinned replays in /verif/findings). fix: commits in /repo are listed there as 'fixed' entries.",
    }
    json.dump(doc, open(os.path.join(V, "MANIFEST.json"), "w"), indent=1)
    print("MANIFEST.json: %d checks, %d not_applicable" % (len(checks), len(na)))

if __name__ == "__main__":
    main()
