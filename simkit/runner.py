"""Runner: seeded search over cases in worker interpreters, minimisation, replay, evidence, findings.

Parent (``main``):  splits run indices over worker interpreters (subprocess, one PYTHONHASHSEED
each), collects per-run digests / signatures, counters and violations, re-runs a replicated subset
under a second hash seed (determinism guard; for C04/C10 the comparison *is* the property),
minimises the first violation of every class in a fresh interpreter, publishes a replay file only
if it reproduces there, matches violation classes against /verif/known_findings.json, writes
/verif/evidence/<ID>.json and prints the interface lines.

Exit codes: 0 property held on everything explored; 1 at least one VIOLATION line was printed;
2 harness error (timeout, crash of a worker, divergent replay, import from the wrong tree) -- no
VIOLATION line is printed for harness errors.
"""
from __future__ import print_function

import argparse
import faulthandler
import importlib
import json
import os
import shutil
import subprocess
import sys
import tempfile
import threading
import time
import traceback

from . import VERIF_DIR, REPO, HarnessError
from .seeds import run_seed, Streams, hashseed_for, digest

PY = sys.executable
WORKER = os.path.join(VERIF_DIR, "simkit", "worker_main.py")
NPROC = int(os.environ.get("VERIF_PROCS", "0")) or min(16, os.cpu_count() or 4)
RUN_TIMEOUT = 120          # seconds of wall per single simulated run before the worker is declared hung


# ------------------------------------------------------------------------------------------------
# Check protocol
# ------------------------------------------------------------------------------------------------
class Check(object):
    """Base class of a property check.  Sub-classes live in /verif/worlds."""
    prop = None
    title = ""
    technique = "deterministic simulation with fault injection: seeded search over cases"
    replicate = 0.02            # fraction of run indices re-executed under another PYTHONHASHSEED
    hashseed_is_property = False
    quick = dict(runs=2000, wall=60)
    thorough = dict(runs=40000, wall=600)
    rule = ""
    real_vs_stub = {}
    assumptions = []
    max_shrink_evals = 1500

    def generate(self, st, tier):
        raise NotImplementedError

    def execute(self, case):
        """-> dict(digest, sig, violations=[{oracle, cls, message}], stats={}, nontrivial, sim_seconds)"""
        raise NotImplementedError

    def shrink(self, case):
        return iter(())

    def describe(self, case):
        return case


def load_check(prop):
    from worlds import CHECKS
    if prop not in CHECKS:
        raise HarnessError("no check registered for %s" % prop)
    modname, factory = CHECKS[prop]
    mod = importlib.import_module(modname)
    return getattr(mod, factory)(prop)


def vkey(v):
    return "%s/%s" % (v.get("oracle"), v.get("cls"))


# ------------------------------------------------------------------------------------------------
# Worker side
# ------------------------------------------------------------------------------------------------
def _merge_stats(dst, src):
    for k, v in src.items():
        if isinstance(v, dict):
            _merge_stats(dst.setdefault(k, {}), v)
        else:
            dst[k] = dst.get(k, 0) + v


def worker_explore(spec):
    check = load_check(spec["prop"])
    tier = spec["tier"]
    seed = spec["seed"]
    deadline = time.time() + spec["wall"]
    out = {"runs": 0, "stats": {}, "sigs": {}, "nontrivial": [], "violations": [], "samples": [],
           "sim_seconds": 0.0, "skipped": 0, "hashseed": os.environ.get("PYTHONHASHSEED")}
    keep_sig = set(spec.get("keep_sig", []))
    keep_all = spec.get("keep_all_sigs", False)
    seen_classes = {}
    nontrivial = set()
    distinct = {}
    fp0 = None
    if spec.get("fingerprint"):
        from . import registry
        registry.base_snapshot()
        fp0 = registry.fingerprint()
    for n, i in enumerate(spec["indices"]):
        if time.time() > deadline:
            out["skipped"] = len(spec["indices"]) - n
            break
        st = Streams(run_seed(seed, spec["prop"], i))
        case = check.generate(st, tier)
        pristine = json.dumps(case)          # what is published is the case as generated, whatever an executor did to its copy
        faulthandler.dump_traceback_later(RUN_TIMEOUT, exit=True)
        try:
            res = check.execute(case)
        finally:
            faulthandler.cancel_dump_traceback_later()
        out["runs"] += 1
        _merge_stats(out["stats"], res.get("stats", {}))
        out["sim_seconds"] += res.get("sim_seconds", 0.0)
        if keep_all or i in keep_sig:
            out["sigs"][str(i)] = res.get("sig", res["digest"])
        if res.get("nontrivial"):
            nontrivial.add(res["digest"])
        for k, v in res.get("distinct", {}).items():
            if v is not None:
                distinct.setdefault(k, set()).add(v)
        if len(out["samples"]) < 2 and res.get("nontrivial"):
            out["samples"].append({"index": i, "case": check.describe(case)})
        for v in res.get("violations", []):
            k = vkey(v)
            c = seen_classes.get(k, 0)
            seen_classes[k] = c + 1
            if c < 3:
                # an oracle may hand over a more explicit case that reproduces the same violation (e.g. an observed
                # address-dependent order pinned as a forced order)
                rc = v.pop("replay_case", None)
                # the interpreter's hash seed is part of the schedule: a replay runs under the same one
                out["violations"].append({"index": i, "case": rc or json.loads(pristine), "violation": v,
                                          "hashseed": os.environ.get("PYTHONHASHSEED")})
    out["nontrivial"] = sorted(nontrivial)
    out["distinct"] = dict((k, sorted(v)) for k, v in distinct.items())
    out["violation_counts"] = seen_classes
    if fp0 is not None:
        from . import registry
        out["fingerprint"] = [fp0, registry.fingerprint()]
    return out


def worker_replay(spec):
    """Execute one explicit case; report violations and digest."""
    check = load_check(spec["prop"])
    faulthandler.dump_traceback_later(RUN_TIMEOUT, exit=True)
    try:
        res = check.execute(spec["case"])
    finally:
        faulthandler.cancel_dump_traceback_later()
    return {"digest": res["digest"], "sig": res.get("sig", res["digest"]), "violations": res.get("violations", []),
            "stats": res.get("stats", {}), "hashseed": os.environ.get("PYTHONHASHSEED")}


def worker_shrink(spec):
    """Greedy delta-debugging: accept a candidate iff the same violation class reproduces."""
    check = load_check(spec["prop"])
    case = spec["case"]
    want = spec["vkey"]
    evals = 0
    deadline = time.time() + spec.get("wall", 120)

    def fails(c):
        faulthandler.dump_traceback_later(RUN_TIMEOUT, exit=True)
        try:
            r = check.execute(c)
        except HarnessError:
            return None
        finally:
            faulthandler.cancel_dump_traceback_later()
        for v in r.get("violations", []):
            if vkey(v) == want:
                return v
        return None

    v0 = fails(case)
    if v0 is None:
        return {"case": case, "violation": None, "evals": 1, "reproduced": False}
    progress = True
    while progress and evals < check.max_shrink_evals and time.time() < deadline:
        progress = False
        for cand in check.shrink(case):
            evals += 1
            v = fails(cand)
            if v is not None:
                case, v0, progress = cand, v, True
                break
            if evals >= check.max_shrink_evals or time.time() > deadline:
                break
    return {"case": case, "violation": v0, "evals": evals, "reproduced": True}


def worker_main(argv):
    spec = json.load(open(argv[1]))
    mode = spec["mode"]
    try:
        if mode == "explore":
            out = worker_explore(spec)
        elif mode == "replay":
            out = worker_replay(spec)
        elif mode == "shrink":
            out = worker_shrink(spec)
        else:
            raise HarnessError("unknown mode " + mode)
    except BaseException:
        out = {"harness_error": traceback.format_exc()}
    tmp = spec["out"] + ".tmp"
    with open(tmp, "w") as f:
        json.dump(out, f)
    os.rename(tmp, spec["out"])
    return 0


# ------------------------------------------------------------------------------------------------
# Parent side
# ------------------------------------------------------------------------------------------------
_WORKER_SCRATCH = [None]


def scratch_base():
    """Private scratch directory of this worker process, below the run's scratch dir (removed by the parent)."""
    if _WORKER_SCRATCH[0] is None or not os.path.isdir(_WORKER_SCRATCH[0]):
        parent = os.environ.get("VERIF_SCRATCH_DIR")
        if not parent or not os.path.isdir(parent):
            parent = "/dev/shm" if os.access("/dev/shm", os.W_OK) else "/var/tmp"
        _WORKER_SCRATCH[0] = tempfile.mkdtemp(prefix="w%d-" % os.getpid(), dir=parent)
    return _WORKER_SCRATCH[0]


class Scratch(object):
    def __init__(self):
        base = os.environ.get("VERIF_SCRATCH") or ("/dev/shm" if os.access("/dev/shm", os.W_OK) else "/var/tmp")
        os.makedirs(base, exist_ok=True)
        self.dir = tempfile.mkdtemp(prefix="verif-run-", dir=base)
        self.n = 0
        self.lock = threading.Lock()

    def path(self, name):
        with self.lock:
            self.n += 1
            n = self.n
        return os.path.join(self.dir, "%04d-%s" % (n, name))

    def close(self):
        shutil.rmtree(self.dir, ignore_errors=True)


def _spawn(spec, scratch, hashseed, extra_env=None):
    specfile = scratch.path("spec.json")
    spec = dict(spec)
    spec["out"] = specfile + ".out"
    with open(specfile, "w") as f:
        json.dump(spec, f)
    env = dict(os.environ)
    env["PYTHONHASHSEED"] = str(hashseed)
    env["VERIF_REPO"] = REPO
    env["PYTHONDONTWRITEBYTECODE"] = "1"
    env["VERIF_SCRATCH_DIR"] = scratch.dir
    env.pop("PYTHONPATH", None)
    if extra_env:
        env.update(extra_env)
    errfile = open(specfile + ".err", "w")
    p = subprocess.Popen([PY, WORKER, specfile], env=env, stdout=errfile, stderr=errfile, cwd=VERIF_DIR)
    return p, spec["out"], specfile + ".err"


def _collect(p, outfile, errfile, timeout):
    try:
        rc = p.wait(timeout=timeout)
    except subprocess.TimeoutExpired:
        p.kill()
        p.wait()
        raise HarnessError("worker exceeded wall timeout of %ss\n%s" % (timeout, _tail(errfile)))
    if rc != 0 or not os.path.exists(outfile):
        raise HarnessError("worker exit status %s\n%s" % (rc, _tail(errfile)))
    out = json.load(open(outfile))
    if "harness_error" in out:
        raise HarnessError("worker raised:\n" + out["harness_error"])
    return out


def _tail(path, n=60):
    try:
        return "".join(open(path, errors="replace").readlines()[-n:])
    except Exception:
        return ""


def run_one(prop, mode, payload, hashseed, scratch, timeout=900):
    spec = {"mode": mode, "prop": prop}
    spec.update(payload)
    p, o, e = _spawn(spec, scratch, hashseed)
    return _collect(p, o, e, timeout)


def load_findings():
    path = os.path.join(VERIF_DIR, "known_findings.json")
    if not os.path.exists(path):
        return []
    return json.load(open(path)).get("findings", [])


def match_finding(findings, prop, v):
    for f in findings:
        if f.get("property") != prop or f.get("status") != "open":
            continue
        m = f.get("match", {})
        if m.get("oracle") == v.get("oracle") and m.get("cls") == v.get("cls"):
            return f
    return None


def replay_file(prop, path, scratch, quiet=False):
    """Replay a file in fresh interpreter(s); returns (reproduced, violations, outs)."""
    doc = json.load(open(path))
    if doc.get("property") != prop:
        raise HarnessError("replay file %s is for %s, not %s" % (path, doc.get("property"), prop))
    want = doc.get("vkey")
    hashseeds = doc.get("hashseeds") or [doc.get("hashseed", 1)]
    outs = []
    for hs in hashseeds:
        outs.append(run_one(prop, "replay", {"case": doc["case"]}, hs, scratch))
    viols = []
    for o in outs:
        viols.extend(o["violations"])
    if doc.get("cross_hashseed") and len(outs) > 1:
        sigs = set(o["sig"] for o in outs)
        if len(sigs) > 1:
            viols.append({"oracle": doc.get("cross_oracle", prop + ".hashseed"), "cls": "result-depends-on-hash-seed",
                          "message": "signatures differ across PYTHONHASHSEED %s" % hashseeds})
    if want:
        hit = [v for v in viols if vkey(v) == want]
    else:
        hit = viols
    return bool(hit), hit or viols, outs


def explore(check, tier, seed, scratch, runs=None, wall=None, procs=None):
    cfg = dict(getattr(check, tier))
    if runs:
        cfg["runs"] = runs
    if wall:
        cfg["wall"] = wall
    procs = procs or NPROC
    n = cfg["runs"]
    rep_all = check.replicate >= 1.0
    indices = list(range(n))
    parts = [indices[w::procs] for w in range(procs)]
    rep = set()
    if not rep_all and check.replicate > 0:
        step = max(1, int(round(1.0 / check.replicate)))
        rep = set(indices[::step])
    t0 = time.time()
    procs_l = []
    for w in range(procs):
        mine = parts[w]
        if rep_all:
            extra = parts[(w + 1) % procs] if procs > 1 else []
        else:
            extra = [i for i in parts[(w + 1) % procs] if i in rep] if procs > 1 else []
        spec = {"mode": "explore", "prop": check.prop, "tier": tier, "seed": seed, "indices": extra + mine,
                "wall": cfg["wall"], "keep_all_sigs": rep_all, "keep_sig": sorted(rep)}
        procs_l.append((w, len(mine), _spawn(spec, scratch, hashseed_for(seed, w))))
    outs = []
    for w, nmine, (p, o, e) in procs_l:
        outs.append((w, nmine, _collect(p, o, e, cfg["wall"] + RUN_TIMEOUT + 120)))
    wall_s = time.time() - t0
    agg = {"runs": 0, "stats": {}, "nontrivial": set(), "violations": [], "samples": [], "sim_seconds": 0.0,
           "skipped": 0, "violation_counts": {}, "replicated": 0, "hashseeds": [], "wall_s": wall_s,
           "divergent": [], "distinct": {}}
    sig_by_index = {}
    for w, nmine, o in outs:
        agg["runs"] += o["runs"]
        agg["skipped"] += o["skipped"]
        _merge_stats(agg["stats"], o["stats"])
        agg["nontrivial"].update(o["nontrivial"])
        for k, v in o.get("distinct", {}).items():
            agg["distinct"].setdefault(k, set()).update(v)
        agg["violations"].extend(o["violations"])
        agg["sim_seconds"] += o["sim_seconds"]
        agg["hashseeds"].append(o["hashseed"])
        for k, c in o["violation_counts"].items():
            agg["violation_counts"][k] = agg["violation_counts"].get(k, 0) + c
        if len(agg["samples"]) < 3:
            agg["samples"].extend(o["samples"][:1])
        for i, s in o["sigs"].items():
            sig_by_index.setdefault(int(i), []).append((o["hashseed"], s))
    for i, lst in sorted(sig_by_index.items()):
        if len(lst) > 1:
            agg["replicated"] += 1
            if len(set(s for _, s in lst)) > 1:
                agg["divergent"].append((i, lst))
    return agg


def minimise_and_publish(check, item, seed, scratch, hashseeds=None, cross=False):
    """item: {index, case, violation}.  Returns (replay_path or None, minimised item)."""
    prop = check.prop
    k = vkey(item["violation"])
    hs = (hashseeds or [hashseed_for(seed, 0)])
    case = item["case"]
    viol = item["violation"]
    evals = 0
    if not cross:
        out = run_one(prop, "shrink", {"case": case, "vkey": k, "wall": 180}, hs[0], scratch, timeout=600)
        if out["reproduced"]:
            case, viol, evals = out["case"], out["violation"], out["evals"]
        else:
            raise HarnessError("violation %s of run %s did not reproduce in a fresh interpreter (non-deterministic "
                               "harness?)\ncase=%s" % (k, item.get("index"), json.dumps(item["case"])[:2000]))
    rdir = os.environ.get("VERIF_REPLAY_DIR") or os.path.join(VERIF_DIR, "replays")
    os.makedirs(rdir, exist_ok=True)
    name = "%s-%s-%s.json" % (prop, "".join(ch if ch.isalnum() else "_" for ch in k)[:60], digest(case)[:10])
    path = os.path.join(rdir, name)
    doc = {"property": prop, "vkey": k, "violation": viol, "case": case, "verif_seed": seed,
           "run_index": item.get("index"), "hashseeds": [int(h) for h in hs], "cross_hashseed": bool(cross),
           "shrink_evals": evals, "replay_cmd": "./check %s --replay %s" % (prop, path)}
    with open(path, "w") as f:
        json.dump(doc, f, indent=1, sort_keys=True)
    ok, _, _ = replay_file(prop, path, scratch)
    if not ok:
        raise HarnessError("minimised replay %s does not reproduce in a fresh interpreter" % path)
    return path, {"index": item.get("index"), "case": case, "violation": viol}


def write_evidence(check, tier, seed, agg, extra_cov, violations, wall_s):
    cov = {
        "evaluations": int(agg["runs"]),
        "distinct_nontrivial": int(len(agg["nontrivial"])),
        "rule": check.rule,
        "samples": agg["samples"][:3],
        "runs_per_hour": int(agg["runs"] / max(wall_s, 1e-6) * 3600),
        "seeds": {"verif_seed": seed, "run_seed": "blake2b(VERIF_SEED:%s:index)" % check.prop,
                  "indices": [0, int(agg["runs"] + agg["skipped"])], "skipped_for_wall_budget": int(agg["skipped"])},
        "sim_seconds": round(agg["sim_seconds"], 3),
        "stats": agg["stats"],
        "replicated_under_second_hashseed": int(agg["replicated"]),
        "hash_seeds": sorted(set(str(h) for h in agg["hashseeds"])),
        "worker_processes": len(agg["hashseeds"]),
        "real_vs_stub": check.real_vs_stub,
        "violation_classes_seen": agg["violation_counts"],
        "distinct_counts": dict((k, len(v)) for k, v in agg["distinct"].items()),
    }
    cov.update(extra_cov)
    doc = {
        "property_id": check.prop,
        "tier": tier,
        "seed": int(seed),
        "level": "exploration",
        "coverage": cov,
        "assumptions": list(check.assumptions),
        "wall_s": round(wall_s, 2),
        "violations": int(violations),
    }
    edir = os.environ.get("VERIF_EVIDENCE_DIR") or os.path.join(VERIF_DIR, "evidence")
    os.makedirs(edir, exist_ok=True)
    path = os.path.join(edir, "%s.json" % check.prop)
    with open(path + ".tmp", "w") as f:
        json.dump(doc, f, indent=1, sort_keys=True, default=str)
    os.rename(path + ".tmp", path)
    return path


def main(argv=None):
    ap = argparse.ArgumentParser(prog="check")
    ap.add_argument("prop")
    ap.add_argument("--tier", default=os.environ.get("VERIF_TIER", "quick"), choices=["quick", "thorough"])
    ap.add_argument("--replay")
    ap.add_argument("--runs", type=int)
    ap.add_argument("--wall", type=int)
    ap.add_argument("--procs", type=int)
    args = ap.parse_args(argv)
    seed = int(os.environ.get("VERIF_SEED", "0") or 0)
    print("VERIF_SEED=%d property=%s tier=%s repo=%s" % (seed, args.prop, args.tier, REPO))
    sys.stdout.flush()
    if args.prop.startswith("selftest"):
        from . import selftest
        return selftest.main(args.prop, args, seed)
    scratch = Scratch()
    try:
        return _main(args, seed, scratch)
    except HarnessError as e:
        print("HARNESS-ERROR: %s" % e)
        return 2
    finally:
        scratch.close()


def _main(args, seed, scratch):
    prop = args.prop
    check = load_check(prop)
    findings = load_findings()
    t0 = time.time()

    if args.replay:
        ok, viols, outs = replay_file(prop, args.replay, scratch)
        for o in outs:
            print("replay hashseed=%s digest=%s violations=%d" % (o["hashseed"], o["digest"], len(o["violations"])))
        if ok:
            for v in viols[:5]:
                print("  %s: %s" % (vkey(v), v.get("message")))
            f = match_finding(findings, prop, viols[0])
            if f:
                print("KNOWN-FINDING: property=%s %s" % (prop, f["what"]))
                return 0
            print("VIOLATION property=%s replay=%s" % (prop, os.path.abspath(args.replay)))
            return 1
        print("replay did not reproduce a violation")
        return 0

    # 1. pinned replays of the open findings of this property
    known_hit = {}
    for f in findings:
        if f.get("property") != prop or f.get("status") != "open":
            continue
        path = os.path.join(VERIF_DIR, f["replay"])
        ok, viols, _ = replay_file(prop, path, scratch)
        if ok:
            known_hit[f["id"]] = 0
            print("KNOWN-FINDING: property=%s %s [%s, pinned replay %s]" % (prop, f["what"], f["id"], f["replay"]))
        else:
            print("note: known finding %s no longer reproduces from %s" % (f["id"], f["replay"]))
    sys.stdout.flush()

    # 2. exploration
    agg = explore(check, args.tier, seed, scratch, runs=args.runs, wall=args.wall, procs=args.procs)
    n_viol = 0
    reported = []
    by_class = {}
    for it in agg["violations"]:
        by_class.setdefault(vkey(it["violation"]), []).append(it)
    todo = []
    for k in sorted(by_class):
        it = sorted(by_class[k], key=lambda x: len(json.dumps(x["case"])))[0]
        f = match_finding(findings, prop, it["violation"])
        if f:
            known_hit[f["id"]] = known_hit.get(f["id"], 0) + agg["violation_counts"].get(k, 0)
            continue
        cands = sorted(by_class[k], key=lambda x: len(json.dumps(x["case"])))[:4]
        todo.append((k, cands, None))
    # every class is minimised and replayed in interpreters of its own: side by side (a change that breaks a property
    # often shows under a dozen class names at once)
    from concurrent.futures import ThreadPoolExecutor
    def _first_reproducible(cands):
        # a violation that needs what EARLIER runs of its worker left behind in the process (a change under test that
        # damages process-wide state) does not replay alone: the next candidates of the class are tried, and a class
        # without any replayable candidate is never reported as a violation
        err = None
        for it in cands:
            hs_found = [int(it["hashseed"])] if str(it.get("hashseed") or "").isdigit() else None
            try:
                return minimise_and_publish(check, it, seed, scratch, hs_found)
            except HarnessError as e:
                err = e
        return err

    with ThreadPoolExecutor(max_workers=8) as tpe:
        futs = [(k, tpe.submit(_first_reproducible, cands)) for k, cands, _ in todo]
        done0 = [(k, fu.result()) for k, fu in futs]
    unreplayable = [(k, r) for k, r in done0 if isinstance(r, HarnessError)]
    done = [(k, r) for k, r in done0 if not isinstance(r, HarnessError)]
    if unreplayable and not done:
        raise unreplayable[0][1]
    for k, e in unreplayable:
        print("note: no candidate of class %s replays in a fresh interpreter (it depends on what earlier runs left in the "
              "process); not reported, other classes are" % k)
    for k, (path, mini) in done:
        f = match_finding(findings, prop, mini["violation"])
        if f:
            known_hit[f["id"]] = known_hit.get(f["id"], 0) + agg["violation_counts"].get(k, 0)
            continue
        n_viol += 1
        reported.append((k, path, mini))
    # cross-hash-seed divergence
    if agg["divergent"]:
        i, lst = agg["divergent"][0]
        st = Streams(run_seed(seed, prop, i))
        case = check.generate(st, args.tier)
        hs = [int(h) for h, _ in lst][:2]
        item = {"index": i, "case": case, "violation": {"oracle": prop + ".hashseed", "cls": "result-depends-on-hash-seed",
                                                         "message": "signatures differ across PYTHONHASHSEED %s" % hs}}
        if check.hashseed_is_property:
            try:
                mini_item = shrink_cross(check, item, hs, scratch)
                path, mini = minimise_and_publish(check, mini_item, seed, scratch, hashseeds=hs, cross=True)
            except HarnessError as e:
                if not n_viol:
                    raise
                print("note: cross-hash-seed divergence of run %d could not be turned into a replay (%s); "
                      "other violations are reported" % (i, str(e).splitlines()[0]))
            else:
                f = match_finding(findings, prop, mini["violation"])
                if f:
                    known_hit[f["id"]] = known_hit.get(f["id"], 0) + len(agg["divergent"])
                else:
                    n_viol += 1
                    reported.append((vkey(item["violation"]), path, mini))
        elif not n_viol:
            raise HarnessError("run %d of %s is not deterministic across interpreters/hash seeds: %s" % (i, prop, lst))
        else:
            print("note: run %d differs between interpreters; reported violations make runs diverge, ignoring" % i)
    wall_s = time.time() - t0
    extra = {"known_findings_hit": known_hit, "violations_reported": [{"class": k, "replay": p} for k, p, _ in reported]}
    if reported:
        extra["samples"] = [{"minimised_violation": reported[0][2]}] + agg["samples"][:2]
    path = write_evidence(check, args.tier, seed, agg, extra, n_viol, wall_s)
    print("runs=%d distinct_nontrivial=%d replicated=%d skipped=%d wall=%.1fs runs/h=%d sim_seconds=%.1f" % (
        agg["runs"], len(agg["nontrivial"]), agg["replicated"], agg["skipped"], wall_s,
        int(agg["runs"] / max(wall_s, 1e-6) * 3600), agg["sim_seconds"]))
    print("stats=%s" % json.dumps(agg["stats"], sort_keys=True))
    if known_hit:
        print("known findings hit during exploration: %s" % json.dumps(known_hit, sort_keys=True))
    print("evidence=%s" % path)
    for k, p, mini in reported:
        print("  class=%s message=%s" % (k, mini["violation"].get("message")))
        print("VIOLATION property=%s replay=%s" % (prop, p))
    if agg["runs"] == 0:
        raise HarnessError("no run executed")
    return 1 if n_viol else 0


def shrink_cross(check, item, hashseeds, scratch, max_evals=120):
    """Shrink a case whose *signature* differs between two hash seeds (each probe = 2 interpreters)."""
    case = item["case"]

    def differs(c):
        sigs = [run_one(check.prop, "replay", {"case": c}, hs, scratch)["sig"] for hs in hashseeds]
        return len(set(sigs)) > 1

    if not differs(case):
        raise HarnessError("cross-hash-seed divergence of run %s did not reproduce" % item.get("index"))
    evals = 0
    progress = True
    while progress and evals < max_evals:
        progress = False
        for cand in check.shrink(case):
            evals += 1
            if differs(cand):
                case, progress = cand, True
                break
            if evals >= max_evals:
                break
    out = dict(item)
    out["case"] = case
    return out
