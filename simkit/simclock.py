"""SimClock / SimSignal: the only clock and the only timer the code under test sees.

``SimClock`` is installed as the ``time`` attribute of the modules that read the wall clock
(dr.time, serde.time, ...).  ``SimSignal`` is installed as ``plugins.signal``: ``alarm(n)`` arms a
deadline on the simulated clock; when a generated body "works" past it (``clock.work(dt)``), the
*real* handler registered through ``signal.signal`` is invoked in the working frame -- the same
thing a SIGALRM does between two bytecodes, but at an instant decided by the seed.
"""
import signal as _real_signal
import threading


class SimClock(object):
    def __init__(self, start=1.7e9):
        self.now = float(start)
        self.start = float(start)
        self.signal = None
        self.reads = 0

    # -- what ``time`` offers to the code under test
    def time(self):
        self.reads += 1
        return self.now

    def sleep(self, dt):
        self.work(dt)

    def monotonic(self):
        return self.now

    # -- what generated bodies / simulated commands call
    def work(self, dt):
        """Advance simulated time by dt seconds, delivering an armed alarm at its instant."""
        sig = self.signal
        if sig is not None and sig.deadline is not None and self.now + dt >= sig.deadline:
            dl = sig.deadline
            rest = self.now + dt - dl
            self.now = dl
            sig.fire()
            self.now += rest
        else:
            self.now += dt

    def elapsed(self):
        return self.now - self.start


class SimSignal(object):
    """Stand-in for the ``signal`` module, bound to a SimClock."""
    SIGALRM = _real_signal.SIGALRM

    def __init__(self, clock, main_thread_only=True):
        self.clock = clock
        clock.signal = self
        self.handler = None
        self.deadline = None
        self.armed = 0
        self.fired = 0
        self.cancelled = 0
        self.main_thread_only = main_thread_only
        self.main_ident = threading.main_thread().ident
        self.sim_main = None   # simulated "main thread" predicate, set by SimPool users

    def _in_main(self):
        if self.sim_main is not None:
            return self.sim_main()
        return threading.get_ident() == self.main_ident

    def signal(self, signum, handler):
        # CPython: signal.signal only works in the main thread of the main interpreter
        if self.main_thread_only and not self._in_main():
            raise ValueError("signal only works in main thread of the main interpreter")
        old = self.handler
        self.handler = handler
        return old

    def alarm(self, secs):
        prev = 0
        if self.deadline is not None:
            prev = max(1, int(self.deadline - self.clock.now))
        if secs:
            self.deadline = self.clock.now + secs
            self.armed += 1
        else:
            if self.deadline is not None:
                self.cancelled += 1
            self.deadline = None
        return prev

    def fire(self):
        self.deadline = None
        self.fired += 1
        h = self.handler
        if callable(h):
            h(self.SIGALRM, None)
