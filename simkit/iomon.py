"""Process-wide I/O monitor and fault injector built on ``sys.addaudithook``.

One hook per interpreter forwards the file-system and process events of the *current* run to its
``Monitor``: every ``open`` / ``os.remove`` / ``os.rename`` / ``os.mkdir`` / ``os.symlink`` /
``subprocess.Popen`` ... is recorded, and a fault plan can make the n-th matching event fail with an
``OSError`` (ENOSPC, EIO, EACCES) -- raising from an audit hook aborts the operation exactly as a failing
system call would, at a point the seed chose.
"""
import errno
import os
import sys

WATCHED = frozenset(["open", "os.remove", "os.rename", "os.mkdir", "os.rmdir", "os.symlink", "os.link",
                     "os.truncate", "os.chmod", "os.utime", "shutil.copyfile", "shutil.move", "shutil.rmtree",
                     "subprocess.Popen", "os.exec", "os.posix_spawn", "os.system"])

_CURRENT = [None]
_INSTALLED = [False]


def _hook(event, args):
    m = _CURRENT[0]
    if m is None or event not in WATCHED:
        return
    m.on_event(event, args)


def install():
    if not _INSTALLED[0]:
        sys.addaudithook(_hook)
        _INSTALLED[0] = True


def is_write_open(args):
    mode, flags = args[1], args[2]
    if isinstance(mode, str):
        return any(ch in mode for ch in "wax+")
    if isinstance(flags, int):
        return bool(flags & (os.O_WRONLY | os.O_RDWR | os.O_CREAT | os.O_TRUNC | os.O_APPEND))
    return False


def _s(p):
    if isinstance(p, bytes):
        return p.decode("utf-8", "surrogateescape")
    if isinstance(p, int):
        return "<fd %d>" % p
    try:
        return os.fspath(p)
    except TypeError:
        return repr(p)


class Fault(object):
    """Fail the nth event (1-based) that matches kind ('write-open', 'read-open', 'remove', 'rename', 'mkdir',
    'popen') and whose path contains ``under``."""

    def __init__(self, kind, nth, err=errno.ENOSPC, under=""):
        self.kind = kind
        self.nth = nth
        self.err = err
        self.under = under
        self.seen = 0
        self.fired = False


class Monitor(object):
    def __init__(self, root="", faults=()):
        self.root = root
        self.events = []
        self.faults = list(faults)
        self.enabled = True
        self.fired = []

    def __enter__(self):
        install()
        self.prev = _CURRENT[0]
        _CURRENT[0] = self
        return self

    def __exit__(self, *a):
        _CURRENT[0] = self.prev
        return False

    def classify(self, event, args):
        if event == "open":
            p = _s(args[0])
            return ("write-open" if is_write_open(args) else "read-open"), p, None
        if event in ("os.remove", "os.rmdir", "os.mkdir", "os.truncate", "os.chmod", "os.utime", "shutil.rmtree"):
            return event.split(".")[1], _s(args[0]), None
        if event in ("os.rename", "os.symlink", "os.link", "shutil.copyfile", "shutil.move"):
            return event.split(".")[1], _s(args[0]), _s(args[1])
        if event == "subprocess.Popen":
            exe, argv = args[0], args[1]
            return "popen", _s(exe), [(_s(a)) for a in (argv if isinstance(argv, (list, tuple)) else [argv])]
        return event, repr(args[:1]), None

    def on_event(self, event, args):
        if not self.enabled:
            return
        kind, path, extra = self.classify(event, args)
        if self.root and kind != "popen" and not (path.startswith(self.root) or (isinstance(extra, str) and extra.startswith(self.root))):
            return
        self.events.append((kind, path, extra))
        for f in self.faults:
            if f.fired or f.kind != kind:
                continue
            if f.under and not (any(u in path for u in f.under) if isinstance(f.under, (tuple, list)) else f.under in path):
                continue
            f.seen += 1
            if f.seen == f.nth:
                f.fired = True
                self.fired.append((kind, path, f.err))
                raise OSError(f.err, os.strerror(f.err), path)

    def paths(self, kind):
        return [e[1] for e in self.events if e[0] == kind]
