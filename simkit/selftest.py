"""Self-tests of the machinery: determinism of runs, exactness of registry restore, sensitivity.

./check selftest-determinism [--runs N]   every registered check: N run indices executed twice in separate
                                          interpreters (different PYTHONHASHSEED, different worker counts);
                                          event-log digests must be identical.
./check selftest-sensitivity [--only X]   every patch in /verif/mutants (and /verif/seeded/*/patch.diff) is applied to
                                          a scratch copy of the tree and the quick check of the property it targets
                                          must exit 1 with a VIOLATION line; the scratch copy is removed at once.
"""
from __future__ import print_function

import json
import os
import shutil
import subprocess
import sys
import tempfile
import time

from . import VERIF_DIR, REPO
from .seeds import hashseed_for


def _run_indices(prop, indices, hashseed, scratch, tier="quick"):
    from .runner import _spawn, _collect
    spec = {"mode": "explore", "prop": prop, "tier": tier, "seed": 0, "indices": indices, "wall": 600,
            "keep_all_sigs": True, "keep_sig": [], "fingerprint": True}
    p, o, e = _spawn(spec, scratch, hashseed)
    return p, o, e


def determinism(args, seed):
    from .runner import Scratch, _collect, load_check
    from worlds import CHECKS
    n = args.runs or 400
    props = sorted(CHECKS)
    only = os.environ.get("VERIF_ONLY")
    if only:
        props = [p for p in props if p in only.split(",")]
    bad = 0
    scratch = Scratch()
    try:
        for prop in props:
            check = load_check(prop)
            idx = list(range(n))
            t0 = time.time()
            # layout A: one interpreter, all indices; layout B: 3 interpreters, interleaved, other hash seeds
            jobs = [("A", idx, 11)]
            for w in range(3):
                jobs.append(("B%d" % w, idx[w::3], 1000 + w))
            procs = [(name, _run_indices(prop, ind, hs, scratch)) for name, ind, hs in jobs]
            outs = dict((name, _collect(p, o, e, 900)) for name, (p, o, e) in procs)
            a = outs["A"]["sigs"]
            b = {}
            for w in range(3):
                b.update(outs["B%d" % w]["sigs"])
            diff = [i for i in a if a[i] != b.get(i)]
            fps = [outs[k].get("fingerprint") for k in sorted(outs)]
            if any(fp and fp[0] != fp[1] for fp in fps):
                bad += 1
                print("  registry fingerprint changed over a batch (restore is not exact): %s" % fps)
            if check.hashseed_is_property:
                note = " (signatures; hash-seed independence is the property itself)"
            else:
                note = ""
            print("determinism %s: %d indices, %d divergent%s, %.1fs" % (prop, len(a), len(diff), note, time.time() - t0))
            if diff:
                bad += 1
                print("  first divergent indices: %s" % diff[:10])
            sys.stdout.flush()
    finally:
        scratch.close()
    return 2 if bad else 0


def _mutants(only=None):
    out = []
    idx = os.path.join(VERIF_DIR, "mutants", "index.json")
    if os.path.exists(idx):
        for m in json.load(open(idx)):
            m = dict(m)
            m["path"] = os.path.join(VERIF_DIR, "mutants", m["patch"])
            out.append(m)
    sd = os.path.join(VERIF_DIR, "seeded")
    if os.path.isdir(sd):
        for d in sorted(os.listdir(sd)):
            meta = os.path.join(sd, d, "meta.json")
            if os.path.exists(meta):
                m = json.load(open(meta))
                out.append({"name": "seeded/" + d, "path": os.path.join(sd, d, "patch.diff"),
                            "property": m["property"], "runs": m.get("runs"), "expect": m.get("expect", "violation")})
    if only:
        out = [m for m in out if only in m["name"]]
    return out


def make_scratch_tree(patch_path):
    base = os.environ.get("VERIF_SCRATCH") or "/var/tmp"
    d = tempfile.mkdtemp(prefix="verif-mut-", dir=base)
    shutil.copytree(os.path.join(REPO, "insights"), os.path.join(d, "insights"),
                    ignore=shutil.ignore_patterns("__pycache__", "*.pyc"))
    r = subprocess.run(["patch", "-p1", "-s", "-d", d, "-i", patch_path], stdout=subprocess.PIPE, stderr=subprocess.STDOUT)
    if r.returncode != 0:
        shutil.rmtree(d, ignore_errors=True)
        raise RuntimeError("patch %s does not apply: %s" % (patch_path, r.stdout.decode()))
    return d


def sensitivity(args, seed):
    only = os.environ.get("VERIF_ONLY")
    muts = _mutants(only)
    missed = []
    caught = []
    for m in muts:
        t0 = time.time()
        try:
            d = make_scratch_tree(m["path"])
        except RuntimeError as e:
            print("sensitivity %-40s %s: PATCH-FAILED %s" % (m["name"], m["property"], e))
            missed.append(m["name"])
            continue
        try:
            env = dict(os.environ)
            env["VERIF_REPO"] = d
            env["VERIF_EVIDENCE_DIR"] = os.path.join(d, "evidence")
            env["VERIF_REPLAY_DIR"] = os.path.join(d, "replays")
            cmd = [os.path.join(VERIF_DIR, "check"), m["property"], "--tier", "quick"]
            if m.get("runs"):
                cmd += ["--runs", str(m["runs"])]
            if os.environ.get("VERIF_SENS_WALL"):
                # a shorter exploration per patch for a regression pass over the whole corpus (most patches show within
                # seconds); whatever is missed that way is run again with the full quick budget
                cmd += ["--wall", os.environ["VERIF_SENS_WALL"]]
            r = subprocess.run(cmd, env=env, stdout=subprocess.PIPE, stderr=subprocess.STDOUT, cwd=VERIF_DIR)
            out = r.stdout.decode(errors="replace")
            viol = [l for l in out.splitlines() if l.startswith("VIOLATION")]
            cls = [l.strip() for l in out.splitlines() if l.strip().startswith("class=")]
            ok = r.returncode == 1 and viol
            if m.get("expect") == "clean":
                ok = r.returncode == 0
            print("sensitivity %-40s %s: %s rc=%d %.0fs %s" % (m["name"], m["property"], "CAUGHT" if ok else "MISSED",
                                                               r.returncode, time.time() - t0, (cls[:1] or [""])[0][:160]))
            if not ok:
                missed.append(m["name"])
                print("\n".join("    " + l for l in out.splitlines()[-8:]))
            else:
                caught.append(m["name"])
        finally:
            shutil.rmtree(d, ignore_errors=True)
        sys.stdout.flush()
    print("sensitivity: %d caught, %d missed %s" % (len(caught), len(missed), missed))
    return 2 if missed else 0


def main(prop, args, seed):
    if prop == "selftest-determinism":
        return determinism(args, seed)
    if prop == "selftest-sensitivity":
        return sensitivity(args, seed)
    print("unknown self-test %s" % prop)
    return 2
