"""Snapshot / exact restore of insights-core's process-global registries.

Run *n* must not see run *n-1*: every executor runs inside ``scope()``, which remembers what the
registries held and removes whatever the run added (components, dependents, ignores, enable flags,
filters, deny-list entries, execution contexts, cached look-ups).

The restore is cheap because it relies on two facts: dicts keep insertion order (so keys added by
the run are at the end and can be popped), and generated programs only ever modify pre-existing
*set values* in a few small tables (DEPENDENTS of shipped contexts, COMPONENTS_BY_TYPE,
TYPE_OBSERVERS).  ``fingerprint()`` is a full, slow structural digest; the determinism self-test
compares it before and after batches of runs to prove the cheap restore exact.
"""
import contextlib

from . import bootstrap, HarnessError

bootstrap()

from insights.core import dr, filters, blacklist  # noqa: E402
from insights.core import context as _context  # noqa: E402
from insights import settings  # noqa: E402

_PLAIN = ["DELEGATES", "MODULE_NAMES", "BASE_MODULE_NAMES", "ENABLED", "COMPONENT_IMPORT_CACHE"]
_SETDICTS = ["TYPE_OBSERVERS", "COMPONENTS_BY_TYPE", "DEPENDENCIES", "DEPENDENTS", "IGNORE"]
_SCANNED = ["TYPE_OBSERVERS", "COMPONENTS_BY_TYPE", "DEPENDENTS", "IGNORE"]


class _Snap(object):
    pass


def snapshot():
    s = _Snap()
    s.enabled_obj = dr.ENABLED
    s.plain_len = dict((n, len(getattr(dr, n))) for n in _PLAIN)
    s.enabled_false = set(k for k, v in dr.ENABLED.items() if not v)
    s.setdict_len = dict((n, len(getattr(dr, n))) for n in _SETDICTS)
    s.scanned = dict((n, dict((k, set(v)) for k, v in getattr(dr, n).items())) for n in _SCANNED)
    s.comp_groups = dict((g, len(m)) for g, m in dr.COMPONENTS.items())
    s.hidden = set(dr.HIDDEN)
    s.ctx_registry = len(_context.ExecutionContextMeta.registry)
    s.filters = dict((k, dict(v)) for k, v in filters.FILTERS.items())
    s.filters_enabled = filters.ENABLED
    s.bl = (list(blacklist.BLACKLISTED_SPECS), set(blacklist._FILE_FILTERS), set(blacklist._COMMAND_FILTERS),
            set(blacklist._PATTERN_FILTERS), set(blacklist._KEYWORD_FILTERS))
    s.max_detail = settings.defaults.get("max_detail_length")
    return s


def _pop_to(d, n, what):
    if len(d) < n:
        raise HarnessError("registry %s lost entries during a run" % what)
    while len(d) > n:
        d.popitem()


def restore(s):
    dr.ENABLED = s.enabled_obj       # apply_default_enabled() rebinds it
    for n in _PLAIN:
        _pop_to(getattr(dr, n), s.plain_len[n], n)
    for k, v in dr.ENABLED.items():
        if (not v) != (k in s.enabled_false):
            dr.ENABLED[k] = k not in s.enabled_false
    for n in _SETDICTS:
        _pop_to(getattr(dr, n), s.setdict_len[n], n)
    for n in _SCANNED:
        cur = getattr(dr, n)
        for k, old in s.scanned[n].items():
            if len(cur[k]) != len(old):
                cur[k].clear()
                cur[k].update(old)
    for g in list(dr.COMPONENTS.keys()):
        if g not in s.comp_groups:
            del dr.COMPONENTS[g]
        else:
            _pop_to(dr.COMPONENTS[g], s.comp_groups[g], "COMPONENTS")
    if dr.HIDDEN != s.hidden:
        dr.HIDDEN.clear()
        dr.HIDDEN.update(s.hidden)
    dr.COMPONENTS_BY_NAME.clear()
    del _context.ExecutionContextMeta.registry[s.ctx_registry:]
    if filters.FILTERS or s.filters:
        filters.FILTERS.clear()
        for k, v in s.filters.items():
            filters.FILTERS[k] = dict(v)
    filters._CACHE.clear()
    filters.ENABLED = s.filters_enabled
    blacklist.BLACKLISTED_SPECS[:] = s.bl[0]
    for cur, old in zip((blacklist._FILE_FILTERS, blacklist._COMMAND_FILTERS, blacklist._PATTERN_FILTERS,
                         blacklist._KEYWORD_FILTERS), s.bl[1:]):
        if cur != old:
            cur.clear()
            cur.update(old)
    if s.max_detail is not None:
        settings.defaults["max_detail_length"] = s.max_detail


_BASE = None


def base_snapshot():
    """The snapshot every run of this process returns to (taken once, after the world's imports)."""
    global _BASE
    if _BASE is None:
        _BASE = snapshot()
    return _BASE


@contextlib.contextmanager
def scope():
    s = base_snapshot()
    try:
        yield s
    finally:
        restore(s)


def fingerprint():
    """Slow structural digest of all registries (names only), for the restore self-test."""
    from .seeds import digest

    def nm(x):
        try:
            return dr.get_name(x)
        except Exception:
            return repr(type(x))
    parts = []
    for n in _PLAIN:
        parts.append((n, sorted(nm(k) for k in getattr(dr, n))))
    for n in _SETDICTS:
        parts.append((n, sorted((nm(k), sorted(nm(x) for x in v)) for k, v in getattr(dr, n).items())))
    parts.append(("COMPONENTS", sorted((str(g), sorted((nm(k), sorted(nm(x) for x in v)) for k, v in m.items()))
                                       for g, m in dr.COMPONENTS.items())))
    parts.append(("ENABLED", sorted((nm(k), bool(v)) for k, v in dr.ENABLED.items())))
    parts.append(("HIDDEN", sorted(nm(k) for k in dr.HIDDEN)))
    parts.append(("CTX", len(_context.ExecutionContextMeta.registry)))
    parts.append(("FILTERS", sorted((nm(k), sorted(v.items())) for k, v in filters.FILTERS.items())))
    parts.append(("BL", sorted(blacklist._FILE_FILTERS), sorted(blacklist._COMMAND_FILTERS),
                  sorted(blacklist._PATTERN_FILTERS), sorted(blacklist._KEYWORD_FILTERS),
                  list(blacklist.BLACKLISTED_SPECS)))
    parts.append(("MAXLEN", settings.defaults.get("max_detail_length")))
    return digest(parts)
