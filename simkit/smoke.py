"""Developer helper: run N cases of a check in-process and print violation classes."""
import sys, time
sys.path.insert(0, '/verif')
from simkit.seeds import Streams, run_seed
from simkit.runner import load_check

def main():
    prop = sys.argv[1]; N = int(sys.argv[2]); tier = sys.argv[3] if len(sys.argv) > 3 else "quick"
    start = int(sys.argv[4]) if len(sys.argv) > 4 else 0
    chk = load_check(prop)
    t0 = time.time(); cls = {}; stats = {}
    from simkit.runner import _merge_stats
    for i in range(start, start + N):
        case = chk.generate(Streams(run_seed(0, prop, i)), tier)
        res = chk.execute(case)
        _merge_stats(stats, res["stats"])
        for v in res["violations"]:
            cls.setdefault(v["oracle"] + "/" + v["cls"], []).append((i, v["message"]))
    print(prop, "runs/s %.1f" % (N / (time.time() - t0)))
    print(stats)
    for k, v in sorted(cls.items()):
        print("  ", k, len(v), v[0])

if __name__ == "__main__":
    main()
