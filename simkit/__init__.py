"""simkit -- deterministic simulation kit for insights-core (see /verif/DESIGN.md).

Importing this package pins the tree under test: ``VERIF_REPO`` (default /repo) is put first on
sys.path and ``insights`` must come from there, so the same checks can be pointed at a scratch copy
by the sensitivity self-test.
"""
import os
import sys

VERIF_DIR = os.path.dirname(os.path.dirname(os.path.abspath(__file__)))
REPO = os.path.realpath(os.environ.get("VERIF_REPO", "/repo"))
GUARD = "REDHATINSIGHTS_INSIGHTS_CORE_VERIF"


class HarnessError(Exception):
    """Something is wrong with the machinery (not with the property)."""


def bootstrap():
    """Make sure ``insights`` is imported from REPO; returns the module."""
    if REPO not in sys.path[:1]:
        sys.path.insert(0, REPO)
    import logging
    logging.disable(logging.CRITICAL)
    import insights
    got = os.path.realpath(insights.__file__)
    if not got.startswith(REPO + os.sep):
        raise HarnessError("insights imported from %s, expected below %s" % (got, REPO))
    return insights
