"""One integer decides everything: derivation of per-run seeds and independent PRNG streams."""
import hashlib
import random


def h64(*parts):
    s = ":".join(str(p) for p in parts).encode()
    return int.from_bytes(hashlib.blake2b(s, digest_size=8).digest(), "big")


def run_seed(verif_seed, prop, index):
    return h64(verif_seed, prop, index)


class Streams(object):
    """Independent PRNG streams derived from one run seed.

    prog  -- shape of the generated program / layout / history
    fault -- fault placement
    sched -- scheduler decisions (tie-breaks, pre-emption)
    knob  -- tuning knobs (pool size, limits, switches)
    """
    NAMES = ("prog", "fault", "sched", "knob")

    def __init__(self, seed):
        self.seed = seed
        for n in self.NAMES:
            setattr(self, n, random.Random(h64(seed, n)))


def stable(obj):
    """Order-insensitive normal form for dicts and sets (sorted by repr), recursively."""
    if isinstance(obj, dict):
        return ("{}", sorted(((stable(k), stable(v)) for k, v in obj.items()), key=repr))
    if isinstance(obj, (set, frozenset)):
        return ("set", sorted((stable(x) for x in obj), key=repr))
    if isinstance(obj, (list, tuple)):
        return [stable(x) for x in obj]
    return obj


def digest(obj):
    """Stable digest of an event log or structure (dict / set order does not matter)."""
    return hashlib.blake2b(repr(stable(obj)).encode("utf-8", "backslashreplace"), digest_size=8).hexdigest()


def hashseed_for(verif_seed, worker):
    """PYTHONHASHSEED of worker interpreter ``worker`` (never 0 == 'disable randomisation')."""
    return 1 + h64(verif_seed, "hashseed", worker) % 4294967294
