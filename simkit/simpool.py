"""SimPool -- a thread pool whose interleaving is decided by a seeded PRNG.

Tasks are real threads, but exactly one thread (a worker or the submitting "main" thread) holds
the baton at any time; the others are parked on their own semaphore.  Yield points are the traced
``line`` (optionally ``opcode``) events in a chosen set of source files plus submit / result / task
exit.  At a yield point the baton holder asks the policy whether to hand the baton over and to whom.
Line boundaries are a subset of the points at which CPython may switch threads, so every simulated
interleaving is one a real ThreadPoolExecutor run could produce.

A schedule is recorded as the list of switches that happened ``[(step, to_task)]`` and can be
replayed (and shrunk) by step index, independent of the PRNG.
"""
import opcode as _opcode
import sys
import threading

from . import HarnessError

MAIN = -1

# Opcode-granularity pre-emption only yields in front of these instructions.  They are the ones around which another
# thread's action can matter inside one source line (a call, a return, a subscript / attribute store, an iteration
# step), and -- unlike LOAD_FAST and friends -- they are never fused into super-instructions by the adaptive
# interpreter, so the number of yield points of an execution does not depend on how warm the code is (replay by step
# index stays exact across interpreters).
_YIELD_OPS = frozenset(_opcode.opmap[n] for n in (
    "CALL", "CALL_FUNCTION_EX", "RETURN_VALUE", "RETURN_CONST", "STORE_SUBSCR", "DELETE_SUBSCR", "STORE_ATTR",
    "GET_ITER", "FOR_ITER", "BINARY_SUBSCR", "CONTAINS_OP", "YIELD_VALUE", "RAISE_VARARGS") if n in _opcode.opmap)
_CODE_BYTES = {}

# ---- instruction-level events come from sys.monitoring "local" events that are switched on ONCE per process for every
# code object of the chosen files (sys.settrace's per-frame opcode tracing instruments a code object the first time a
# frame of it is traced, so whether the first execution delivers events would depend on the history of the process --
# and replay by step index would not be exact across interpreters).
_MON_TOOL = 4
_MON = {"pool": None, "files": set(), "ready": False}


def _all_code_objects(files):
    import types
    seen = set()
    out = []

    def add(code):
        if code in seen or code.co_filename not in files:
            return
        seen.add(code)
        out.append(code)
        for c in code.co_consts:
            if isinstance(c, types.CodeType):
                add(c)

    def visit(obj, depth=0):
        f = getattr(obj, "__func__", obj)
        f = getattr(f, "fget", f) if isinstance(f, property) else f
        code = getattr(f, "__code__", None)
        if isinstance(code, types.CodeType):
            add(code)
        if isinstance(obj, type) and depth < 3:
            for v in list(vars(obj).values()):
                visit(v, depth + 1)
    for mod in list(sys.modules.values()):
        if getattr(mod, "__file__", None) in files:
            for v in list(vars(mod).values()):
                if getattr(v, "__module__", None) == mod.__name__ or isinstance(v, (staticmethod, classmethod, property)):
                    visit(v)
    return out


def _instruction_event(code, offset):
    pool = _MON["pool"]
    if pool is None:
        return
    raw = _CODE_BYTES.get(code)
    if raw is None:
        raw = _CODE_BYTES[code] = code.co_code              # the un-specialised bytecode
    if raw[offset] in _YIELD_OPS:
        pool.yield_point(code.co_name, -offset)


def ensure_instruction_events(files):
    files = set(files) - _MON["files"]
    if not files:
        return
    mon = sys.monitoring
    if not _MON["ready"]:
        mon.use_tool_id(_MON_TOOL, "simkit-simpool")
        mon.register_callback(_MON_TOOL, mon.events.INSTRUCTION, _instruction_event)
        _MON["ready"] = True
    for code in _all_code_objects(files):
        mon.set_local_events(_MON_TOOL, code, mon.events.INSTRUCTION)
    _MON["files"] |= files


class SimDeadlock(HarnessError):
    pass


class _Task(object):
    __slots__ = ("tid", "fn", "args", "kwargs", "sem", "done", "result", "exc", "started", "blocked_on", "prio")

    def __init__(self, tid, fn, args, kwargs):
        self.tid = tid
        self.fn = fn
        self.args = args
        self.kwargs = kwargs
        self.sem = threading.Semaphore(0)
        self.done = False
        self.result = None
        self.exc = None
        self.started = False
        self.blocked_on = None
        self.prio = 0.0


class SimFuture(object):
    def __init__(self, pool, task):
        self._pool = pool
        self._task = task

    def result(self, timeout=None):
        self._pool._block_until(self._task)
        if self._task.exc is not None:
            raise self._task.exc
        return self._task.result

    def done(self):
        return self._task.done

    def exception(self, timeout=None):
        self._pool._block_until(self._task)
        return self._task.exc


class SimPool(object):
    """policy: dict(kind="walk", p=0.1) | dict(kind="pct", depth=2, horizon=400) |
               dict(kind="replay", switches=[[step, tid], ...])"""

    def __init__(self, rng, max_workers=2, policy=None, traced_files=(), opcode_files=(), max_steps=20000):
        self.rng = rng
        self.max_workers = max_workers if max_workers else 10 ** 6
        self.policy = dict(policy or {"kind": "walk", "p": 0.1})
        self.traced = set(traced_files) | set(opcode_files)
        self.opcode_files = set(opcode_files)
        if self.opcode_files:
            ensure_instruction_events(self.opcode_files)
        self.max_steps = max_steps
        self.tasks = []
        self.queue = []
        self.running = 0
        self.main = _Task(MAIN, None, None, None)
        self.main.started = True
        self.main.prio = 0.5
        self.cur = self.main
        self.steps = 0
        self.switches = []          # [(step, to_tid)] -- the schedule that happened
        self.where = []             # parallel to switches: (from_tid, co_name, lineno) for reports
        self.capped = False
        self._threads = []
        self._main_traced = False
        self._closed = False
        kind = self.policy.get("kind")
        if kind == "pct":
            depth = int(self.policy.get("depth", 2))
            horizon = int(self.policy.get("horizon", 400))
            self._change_points = set(rng.randrange(1, max(2, horizon)) for _ in range(depth))
        elif kind == "replay":
            self._replay = dict((int(s), int(t)) for s, t in self.policy.get("switches", []))

    # ---------------------------------------------------------------- public (Executor-like) API
    def __enter__(self):
        return self

    def __exit__(self, *a):
        self.shutdown()
        return False

    def submit(self, fn, *args, **kwargs):
        if self._closed:
            raise RuntimeError("cannot schedule new futures after shutdown")
        self._trace_main()
        t = _Task(len(self.tasks), fn, args, kwargs)
        if self.policy.get("kind") == "pct":
            t.prio = 1.0 + self.rng.random()
        self.tasks.append(t)
        self.queue.append(t)
        self._start_queued()
        self.yield_point("submit", 0)
        return SimFuture(self, t)

    def map(self, fn, *iterables):
        futs = [self.submit(fn, *a) for a in zip(*iterables)]
        return [f.result() for f in futs]

    def shutdown(self, wait=True):
        if self._closed:
            return
        for t in list(self.tasks):
            self._block_until(t)
        self._closed = True
        self._untrace_main()
        for th in self._threads:
            th.join(10)

    def in_main(self):
        return self.cur is self.main

    # ---------------------------------------------------------------- tracing
    def trace_main_now(self):
        """Start tracing the calling (main) thread before the code under test is entered, so that every frame of it is
        created under the tracer.  (Attaching to frames that are already running works, but whether their first events are
        delivered depends on whether their code objects were instrumented before -- i.e. on the history of the process.)"""
        if self._main_traced or not self.traced:
            return
        self._main_traced = True
        self._main_ident = threading.get_ident()
        if self.opcode_files:
            _MON["pool"] = self
        sys.settrace(self._tracer)

    def _trace_main(self):
        if self._main_traced or not self.traced:
            return
        self._main_traced = True
        self._main_ident = threading.get_ident()
        if self.opcode_files:
            _MON["pool"] = self
        sys.settrace(self._tracer)
        f = sys._getframe(2)
        while f is not None:
            if f.f_code.co_filename in self.traced:
                f.f_trace = self._local
            f = f.f_back

    def _untrace_main(self):
        if _MON["pool"] is self:
            _MON["pool"] = None
        if self._main_traced:
            sys.settrace(None)
            f = sys._getframe(1)
            while f is not None:
                if f.f_trace is not None and getattr(f.f_trace, "__self__", None) is self:
                    f.f_trace = None
                f = f.f_back
            self._main_traced = False

    def _tracer(self, frame, event, arg):
        fn = frame.f_code.co_filename
        if fn not in self.traced:
            return None
        return self._local

    def _local(self, frame, event, arg):
        if event == "line":
            self.yield_point(frame.f_code.co_name, frame.f_lineno)
        return self._local

    # ---------------------------------------------------------------- scheduling core
    def _start_queued(self):
        while self.queue and self.running < self.max_workers:
            t = self.queue.pop(0)
            t.started = True
            self.running += 1
            th = threading.Thread(target=self._body, args=(t,), daemon=True)
            self._threads.append(th)
            th.start()

    def _body(self, t):
        t.sem.acquire()
        if self.traced:
            sys.settrace(self._tracer)
        try:
            t.result = t.fn(*t.args, **t.kwargs)
        except BaseException as e:     # noqa -- delivered through the future, like a real pool
            t.exc = e
        finally:
            sys.settrace(None)
            t.done = True
            self.running -= 1
            self._start_queued()
            self._handoff_final(t)

    def _runnable(self):
        r = [t for t in self.tasks if t.started and not t.done and (t.blocked_on is None or t.blocked_on.done)]
        m = self.main
        if m.blocked_on is None or m.blocked_on.done:
            r.append(m)
        return r

    def yield_point(self, name, lineno):
        self.steps += 1
        if self.steps > self.max_steps:
            self.capped = True
            return
        t = self.cur
        kind = self.policy.get("kind")
        if kind == "walk":
            if self.rng.random() >= self.policy.get("p", 0.1):
                return
            r = self._runnable()
            if len(r) < 2:
                return
            n = r[self.rng.randrange(len(r))]
        elif kind == "pct":
            if self.steps in self._change_points:
                t.prio = -float(self.steps)          # lower than anything assigned before
            r = self._runnable()
            if len(r) < 2:
                return
            n = max(r, key=lambda x: (x.prio, -x.tid))
        elif kind == "replay":
            tid = self._replay.get(self.steps)
            if tid is None:
                return
            n = self._by_tid(tid)
            if n is None or n not in self._runnable():
                return
        else:
            return
        if n is t:
            return
        self._switch(t, n, name, lineno)

    def _by_tid(self, tid):
        if tid == MAIN:
            return self.main
        if 0 <= tid < len(self.tasks):
            return self.tasks[tid]
        return None

    def _pick_forced(self, r):
        kind = self.policy.get("kind")
        if kind == "walk":
            return r[self.rng.randrange(len(r))]
        if kind == "pct":
            return max(r, key=lambda x: (x.prio, -x.tid))
        if kind == "replay":
            tid = self._replay.get(self.steps)
            n = self._by_tid(tid) if tid is not None else None
            if n is not None and n in r:
                return n
        return min(r, key=lambda x: x.tid)

    def _switch(self, frm, to, name, lineno):
        self.switches.append((self.steps, to.tid))
        self.where.append((frm.tid, name, lineno))
        self.cur = to
        to.sem.release()
        frm.sem.acquire()

    def _handoff_final(self, t):
        """Task t is finished: somebody else must take the baton; this thread ends."""
        self.steps += 1
        r = [x for x in self._runnable() if x is not t]
        if not r:
            # nothing can run: every task is done and main is not waiting -> impossible, main always is
            self._deadlock = True
            self.cur = self.main
            self.main.sem.release()
            return
        n = self._pick_forced(r)
        self.switches.append((self.steps, n.tid))
        self.where.append((t.tid, "exit", 0))
        self.cur = n
        n.sem.release()

    def _block_until(self, task):
        # the caller is whoever holds the baton: the main thread, or a pool task that submitted work of its own
        # (collect() hands ONE pool to run_all and to the persister's marshalling)
        m = self.cur
        m.blocked_on = task
        while not task.done:
            self.steps += 1
            r = [x for x in self._runnable() if x is not m]
            if not r:
                m.blocked_on = None
                raise SimDeadlock("no runnable task while waiting for task %d" % task.tid)
            n = self._pick_forced(r)
            self._switch(m, n, "result", 0)
        m.blocked_on = None
