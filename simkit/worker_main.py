"""Entry point of worker interpreters (run as a script so that no module is loaded twice)."""
import os
import sys

sys.path.insert(0, os.path.dirname(os.path.dirname(os.path.abspath(__file__))))

if __name__ == "__main__":
    from simkit import bootstrap
    bootstrap()
    from simkit.runner import worker_main
    sys.exit(worker_main(sys.argv))
