import sys, json
sys.path.insert(0, '/verif')
from simkit.seeds import Streams, run_seed
from simkit.runner import load_check
prop = sys.argv[1]; i = int(sys.argv[2]); tier = sys.argv[3] if len(sys.argv) > 3 else "quick"
chk = load_check(prop)
case = chk.generate(Streams(run_seed(0, prop, i)), tier)
print(json.dumps(case))
res = chk.execute(case)
for v in res["violations"]:
    print(v)
