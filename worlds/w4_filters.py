"""World W4 -- filter registry histories and content laws (C07).

Part A (first sentence of the property): a *history* of filter registrations, look-ups and late component
definitions against the real ``insights.core.filters`` registry, on a generated spec set created through
the real metaclass (filterable / non-filterable / raw registry points, 1-3 implementation classes some of
which are defined in the middle of the history, parsers on registry points and implementations, combiners
on parsers, a datasource chained on an implementation).  After every look-up the returned filter set must
equal the union the property describes *as of now*.

Part B (second sentence): the filters in force at the end of the history are applied to generated content
through every code path that applies filters -- host pre-filter of a file (real ``grep -F`` through the real
provider), host pre-filter of a command pipeline (real ``cat | grep -F``), post-filter on load under an archive
context, the allow-list inside ``Cleaner.clean_content`` and ``filters.apply_filters`` -- and the line-level
laws are checked on each.
"""
import os
import random
import shutil
import tempfile

from simkit import bootstrap, HarnessError

bootstrap()

from simkit import registry                      # noqa: E402
from simkit.runner import Check, scratch_base    # noqa: E402
from simkit.seeds import digest                  # noqa: E402

from worlds import w1_engine as w1               # noqa: E402
from worlds.w1_engine import G, _copy            # noqa: E402

from insights.core import dr, plugins, filters, spec_factory   # noqa: E402
from simkit.iomon import Monitor, Fault          # noqa: E402
import errno          # noqa: E402
from insights.core.context import HostContext, ExecutionContext, HostArchiveContext   # noqa: E402
from insights.core.exceptions import NoFilterException, ContentException, CalledProcessError   # noqa: E402
from insights.core.spec_factory import SpecSet, TextFileProvider, CommandOutputProvider  # noqa: E402
from insights.cleaner import Cleaner             # noqa: E402
from insights.cleaner.filters import AllowFilter  # noqa: E402
from worlds import w2_collect                    # noqa: E402,F401  (the end-to-end share: its imports -- DefaultSpecs -- belong to the base registry)


def V(oracle, cls, message):
    return {"oracle": oracle, "cls": cls, "message": message}


# ------------------------------------------------------------------------------------------------
# generator
# ------------------------------------------------------------------------------------------------
FILTER_ALPHABET = "abcxyz019 .*[]^$\\+?(){}|-'\"#=/:_%&<>!,;@~"
WORDS = ["error", "ERR", "-A INPUT", "--opt", "-", "a.b", "a*b", "[x]", "^s", "e$", "C:\\d", "(y)", "x|y", "{2}", "kernel:", "=",
         " ", "ab", "abc", "b", "0", "'q'", '"d"', "# c", "-n", "-e", "-f x", "--", "-F", "%s", "@"]


def gen_filter(rng):
    if rng.random() < 0.6:
        return rng.choice(WORDS)
    n = rng.randint(1, 5)
    return "".join(rng.choice(FILTER_ALPHABET) for _ in range(n))


def bulk_filters(spec):
    """A very long filter list (tens of kilobytes on grep's command line), written compactly in the case."""
    return ["evt-%04d:%s" % (k, ("%08x" % ((k + 1) * 2654435761 % (1 << 32))) * 8)[:spec["w"]] for k in range(spec["n"])]


def gen_patterns(rng):
    r = rng.random()
    if r < 0.45:
        return gen_filter(rng)
    k = rng.randint(1, 3)
    lst = [gen_filter(rng) for _ in range(k)]
    if r < 0.8:
        return lst
    return {"set": sorted(set(lst))}


def gen_case(st, tier):
    rp, rf, rk = st.prog, st.fault, st.knob
    case = {"w": "w4", "rps": [{"name": "rf", "filterable": True, "raw": False, "h": rp.getrandbits(40)},
                               {"name": "rn", "filterable": False, "raw": False, "h": rp.getrandbits(40)},
                               {"name": "rr", "filterable": False, "raw": True, "h": rp.getrandbits(40)}],
            "ops": []}
    if rp.random() < 0.3:
        case["rps"].append({"name": "rg", "filterable": True, "raw": False, "h": rp.getrandbits(40)})
    rpnames = [r["name"] for r in case["rps"]]
    defined = {"rp": list(rpnames), "impl": [], "parser": [], "combiner": [], "chain": [], "inner": []}
    ncls = 0
    nops = rp.randint(4, 40 if tier == "thorough" else 28)
    ops = case["ops"]

    def def_class():
        nm = "D%d" % len([o for o in ops if o["op"] == "defclass"])
        impls = [r for r in rpnames if rp.random() < 0.75] or ["rf"]
        # some implementations are built on inner datasources (the first_of([...]) shape of DefaultSpecs.lsof etc.):
        # the inner one is what feeds grep / the allow-list, two levels below the registry point
        inner = dict((r, rp.choice([0, 0, 1, 2])) for r in impls)
        built_on = {}
        if "rf" in impls and "rn" in impls and rp.random() < 0.3:
            # the implementation of the NON-filterable spec is built on the implementation of the filterable one (the
            # provider of a foreach_collect / command_with_args, as httpd_configuration_files on DefaultSpecs): one
            # datasource then serves two registry points with different flags
            built_on["rn"] = "rf"
            inner["rn"] = 0
        ops.append({"op": "defclass", "name": nm, "impls": impls, "h": [rp.getrandbits(40) for _ in impls], "inner": inner,
                    "ih": rp.getrandbits(40), "built_on": built_on})
        defined["impl"].extend("%s.%s" % (nm, r) for r in impls)
        defined["inner"].extend("%s.%s.%d" % (nm, r, k) for r in impls for k in range(inner[r]))

    def_class()
    for _ in range(nops):
        r = rp.random()
        ds_targets = (["rp:" + x for x in defined["rp"]] + ["impl:" + x for x in defined["impl"]] + ["chain:" + x for x in defined["chain"]] +
                      ["inner:" + x for x in defined["inner"]])
        if r < 0.07 and len([o for o in ops if o["op"] == "defclass"]) < 3:
            def_class()
        elif r < 0.17:
            nm = "P%d" % len(defined["parser"])
            on = rp.choice(ds_targets)
            ops.append({"op": "defparser", "name": nm, "on": on, "h": rp.getrandbits(40)})
            defined["parser"].append(nm)
        elif r < 0.22 and defined["parser"]:
            nm = "C%d" % len(defined["combiner"])
            on = rp.sample(defined["parser"], rp.randint(1, min(2, len(defined["parser"]))))
            ops.append({"op": "defcombiner", "name": nm, "on": on, "h": rp.getrandbits(40)})
            defined["combiner"].append(nm)
        elif r < 0.26 and defined["impl"] and len(defined["chain"]) < 2:
            nm = "X%d" % len(defined["chain"])
            ops.append({"op": "defchain", "name": nm, "on": "impl:" + rp.choice(defined["impl"]),
                        "filterable": rp.random() < 0.6, "h": rp.getrandbits(40)})
            defined["chain"].append(nm)
        elif r < 0.62:
            targets = ds_targets + ["parser:" + x for x in defined["parser"]] + ["combiner:" + x for x in defined["combiner"]]
            # bias towards the filterable spec and what hangs on it
            pref = [t for t in targets if t.endswith("rf") or t.startswith(("parser", "combiner"))]
            t = rp.choice(pref if pref and rp.random() < 0.7 else targets)
            op = {"op": "add", "target": t, "patterns": gen_patterns(rp), "max": rp.choice([10000, 10000, 1, 2, 3, 5])}
            b = rf.random()
            if b < 0.03:
                op["max"] = rf.choice([0, -1, None, "5", True, 2.0])
            elif b < 0.05:
                op["patterns"] = rf.choice(["", [], ["ok", ""], {"tuple": ["a"]}, 5, None])
            ops.append(op)
        else:
            t = rp.choice(ds_targets)
            ops.append({"op": "look", "target": t, "with_matches": rp.random() < 0.4})
    if rk.random() < 0.002:
        # more filter text than fits in any fixed-size chunk of a command line (but below the kernel's 128 KiB per argument)
        ops.append({"op": "add", "target": "rp:rf", "patterns": {"bulk": {"n": rk.choice([700, 800, 1100, 1500]), "w": rk.choice([48, 50, 64])}},
                    "max": 10000})
    # always end with a look-up on every implementation of the filterable spec
    for im in defined["impl"]:
        if im.endswith(".rf"):
            ops.append({"op": "look", "target": "impl:" + im, "with_matches": True})
    case["content"] = gen_content(st, case)
    return case


LINE_ALPHABET = "abcxyz019 \t.*[]^$\\+?(){}|-'\"#=/:_%&<>!,;@"


def gen_content(st, case):
    rp, rf = st.prog, st.fault
    used = []
    for o in case["ops"]:
        if o["op"] == "add":
            p = o["patterns"]
            if isinstance(p, str):
                used.append(p)
            elif isinstance(p, list):
                used.extend(x for x in p if isinstance(x, str))
            elif isinstance(p, dict) and "set" in p:
                used.extend(p["set"])
    bulk = [bf for o in case["ops"] if o["op"] == "add" and isinstance(o["patterns"], dict) and "bulk" in o["patterns"]
            for bf in bulk_filters(o["patterns"]["bulk"])]
    used = [u for u in used if u] or ["zz"]
    n = rp.choice([0, 1, 2, 3, 5, 8, 12, 20])
    lines = []
    for k in range(n):
        r = rp.random()
        parts = []
        if r < 0.12:
            lines.append("")
            continue
        for _ in range(rp.randint(0, 3)):
            if rp.random() < 0.55:
                parts.append(rp.choice(used))
            else:
                parts.append("".join(rp.choice(LINE_ALPHABET) for _ in range(rp.randint(1, 6))))
        if rf.random() < 0.02:
            parts.append("\x00")                     # a NUL byte (binary-looking content)
        if rf.random() < 0.03:
            parts.append(rp.choice(["\u00e9", "\u4e2d", "\U0001f600"]))
        if rf.random() < 0.03:
            # characters str.splitlines() takes for line boundaries although no file iterator, grep or terminal does
            parts.append(rp.choice(["\r", "\x0b", "\x0c", "\x1c", "\x1d", "\x1e", "\x85", "\u2028", "\u2029"]) + rp.choice(["", "a", "zz"]))
        line = rp.choice(["", " ", "-"]) .join(parts)
        lines.append("%s ~%d~" % (line, k))           # unique inert marker: exact output -> input attribution
    for k, bf in enumerate(bulk):
        lines.append("%s ~%d~" % (bf, 100000 + k))        # one line per filter of the long list: each must be kept
    redact = []
    if rp.random() < 0.5 and not bulk:
        redact = [rp.choice(["x", "9", "y", "ab", "0", "~1", "(", "error"])]     # a plain exclusion pattern for the cleaner path
    conc = None
    if rp.random() < 0.3:
        # a second caller of the SAME Cleaner at the same time, with an allow-list of its own (what collect() does with
        # its thread pool): other filters, small budgets
        other = dict((u, rp.choice([1, 2, 10000])) for u in rp.sample(used, min(len(used), rp.randint(1, 2))))
        conc = {"seed": rp.getrandbits(32), "allowlist": other, "rotate": rp.randrange(max(1, n)),
                "policy": ({"kind": "walk", "p": rp.choice([0.05, 0.1, 0.3])} if rp.random() < 0.7 else
                           {"kind": "pct", "depth": rp.choice([1, 2, 3]), "horizon": rp.choice([50, 200, 600])})}
    out = {"lines": lines, "trailing_newline": rp.random() < 0.85, "redact": redact, "concurrent": conc,
           "keep_rc": rp.random() < 0.4}          # the command spec is declared with keep_rc=True (as ls_la_filtered is)
    if rf.random() < 0.1:
        # a fault inside the host pre-filter: the grep sub-process cannot be started (E2BIG for a long filter list, no
        # memory, no more processes, no grep installed), or the file is rotated away between the construction of the
        # provider (validate) and the loading of its content
        if rf.random() < 0.5:
            out["prefilter_fault"] = {"kind": "popen", "errno": rf.choice(["E2BIG", "ENOMEM", "EAGAIN", "ENOENT", "EACCES"]), "nth": rf.choice([1, 1, 2])}
        else:
            out["prefilter_fault"] = {"kind": "vanish"}
    return out


# ------------------------------------------------------------------------------------------------
# executing a history against the real registry, with the reference model alongside
# ------------------------------------------------------------------------------------------------
class FilterWorld(object):
    def __init__(self, case):
        self.case = case
        self.objs = {}          # "kind:name" -> real component
        self.meta = {}          # "kind:name" -> model record
        self.F = {}             # "kind:name" -> {pattern: budget}
        self.log = []

    def _ds(self, name, h, deps, **kw):
        g = G(name.replace(".", "_").replace(":", "_"), h)
        g._body = lambda broker: None
        plugins.datasource(*deps, **kw)(g)
        return g

    def define_base(self):
        body = {"__module__": w1.MODNAME}
        for r in self.case["rps"]:
            p = w1.RegistryPoint(r["name"], r["h"], filterable=r["filterable"], raw=r["raw"])
            body[r["name"]] = p
            key = "rp:" + r["name"]
            self.objs[key] = p
            self.meta[key] = {"kind": "rp", "deps": [], "filterable": r["filterable"], "attr": r["filterable"], "raw": r["raw"], "ds": True}
        self.base = type("FSpecs", (SpecSet,), body)

    def define(self, op):
        k = op["op"]
        if k == "defclass":
            cb = {"__module__": w1.MODNAME}
            for rn, h in zip(op["impls"], op["h"]):
                key = "impl:%s.%s" % (op["name"], rn)
                inner_keys = []
                for k in range((op.get("inner") or {}).get(rn, 0)):
                    ik = "inner:%s.%s.%d" % (op["name"], rn, k)
                    self.objs[ik] = self._ds(ik, (op.get("ih", 0) + 7919 * (k + 1) + hash_str(rn)) % (1 << 40), [HostContext])
                    self.meta[ik] = {"kind": "inner", "deps": [], "filterable": False, "attr": None, "raw": False, "ds": True, "of": key}
                    inner_keys.append(ik)
                on = (op.get("built_on") or {}).get(rn)
                on_key = "impl:%s.%s" % (op["name"], on) if on else None
                if on_key is not None and on_key in self.objs:
                    ds = self._ds(key, h, [self.objs[on_key]])
                else:
                    on_key = None
                    ds = self._ds(key, h, [[self.objs[ik] for ik in inner_keys]] if inner_keys else [HostContext])
                cb[rn] = ds
                self.objs[key] = ds
                r = [x for x in self.case["rps"] if x["name"] == rn][0]
                self.meta[key] = {"kind": "impl", "deps": list(inner_keys) + ([on_key] if on_key else []), "filterable": r["filterable"],
                                  "attr": r["filterable"], "raw": r["raw"], "ds": True}
                self.meta["rp:" + rn]["deps"].append(key)
            type(op["name"], (self.base,), cb)
        elif k == "defparser":
            key = "parser:" + op["name"]
            g = G(op["name"], op["h"])
            g._body = lambda v: v
            plugins.parser(self.objs[op["on"]])(g)
            self.objs[key] = g
            self.meta[key] = {"kind": "parser", "deps": [op["on"]], "ds": False}
        elif k == "defcombiner":
            key = "combiner:" + op["name"]
            g = G(op["name"], op["h"])
            g._body = lambda *a: a
            plugins.combiner(*[self.objs["parser:" + p] for p in op["on"]])(g)
            self.objs[key] = g
            self.meta[key] = {"kind": "combiner", "deps": ["parser:" + p for p in op["on"]], "ds": False}
        elif k == "defchain":
            key = "chain:" + op["name"]
            ds = self._ds(key, op["h"], [self.objs[op["on"]]], filterable=op["filterable"])
            self.objs[key] = ds
            self.meta[key] = {"kind": "chain", "deps": [op["on"]], "filterable": op["filterable"], "attr": None, "raw": False, "ds": True}

    # ---- model
    def first_datasources(self, key):
        m = self.meta[key]
        if m["ds"]:
            return set([key])
        out = set()
        for d in m["deps"]:
            out |= self.first_datasources(d)
        return out

    def dependents(self, key):
        return [k for k, m in self.meta.items() if key in m["deps"]]

    def contributing(self, key):
        """Components whose registrations are in force for datasource ``key`` (mirror of the documented walk:
        the datasource itself and the datasources built on it, not entering non-filterable specs)."""
        out = []
        seen = set()

        def walk(k):
            m = self.meta[k]
            if not m["ds"] or m.get("attr") is False or k in seen:
                return
            seen.add(k)
            out.append(k)
            for d in self.dependents(k):
                walk(d)
        walk(key)
        return out

    def model_add(self, op):
        t = op["target"]
        pats = op["patterns"]
        mx = op["max"]
        if mx is None or type(mx) is not int or mx <= 0:
            return "rejected"
        m = self.meta[t]
        if not m["ds"]:
            deps = self.first_datasources(t)
            if not deps:
                return "ok"
            targets = sorted(d for d in deps if self.meta[d]["filterable"])
            if not targets:
                return "rejected"
        else:
            if m["raw"] or not m["filterable"]:
                return "rejected"
            targets = [t]
        if isinstance(pats, dict) and "bulk" in pats:
            plist = bulk_filters(pats["bulk"])
        elif isinstance(pats, dict) and "set" in pats:
            plist = list(pats["set"])
        elif isinstance(pats, str):
            plist = [pats]
        elif isinstance(pats, list):
            plist = list(pats)
        else:
            return "rejected"
        if any(not p for p in plist):
            return "rejected"
        for d in targets:
            f = self.F.setdefault(d, {})
            for p in plist:
                f[p] = max(f.get(p, 0), mx)
        return "ok"

    def model_look(self, key):
        exp = {}
        for c in self.contributing(key):
            for p, b in self.F.get(c, {}).items():
                exp.setdefault(p, set()).add(b)
        return exp


def hash_str(x):
    return sum((i + 1) * ord(ch) for i, ch in enumerate(x))


def real_patterns(p):
    if isinstance(p, dict) and "bulk" in p:
        return bulk_filters(p["bulk"])
    if isinstance(p, dict) and "set" in p:
        return set(p["set"])
    if isinstance(p, dict) and "tuple" in p:
        return tuple(p["tuple"])
    return p


def run_history(case, world, viols, stats):
    world.define_base()
    looked = set()
    for k, op in enumerate(case["ops"]):
        name = op["op"]
        if name.startswith("def"):
            world.define(op)
            if looked:
                stats["probes"]["definitions_after_a_lookup"] = stats["probes"].get("definitions_after_a_lookup", 0) + 1
            world.log.append((k, name))
        elif name == "add":
            exp = world.model_add(op)
            try:
                filters.add_filter(world.objs[op["target"]], real_patterns(op["patterns"]), op["max"])
                got = "ok"
            except HarnessError:
                raise
            except Exception as e:
                got = "rejected"
                err = e
            if got != exp:
                viols.append(V("C07.registry", "registration-%s-unexpectedly:%s" % (got, world.meta[op["target"]]["kind"]),
                               "op %d add_filter(%s, %r, %r): %s, expected %s" % (k, op["target"], op["patterns"], op["max"], got, exp)))
            if exp == "rejected":
                stats["faults_fired"]["rejected_registration"] = stats["faults_fired"].get("rejected_registration", 0) + 1
            if looked and exp == "ok":
                stats["probes"]["registrations_after_a_lookup"] = stats["probes"].get("registrations_after_a_lookup", 0) + 1
            world.log.append((k, "add", got))
        elif name == "look":
            t = op["target"]
            exp = world.model_look(t)
            try:
                got = filters.get_filters(world.objs[t], op["with_matches"])
            except Exception as e:
                viols.append(V("C07.registry", "lookup-raised", "op %d get_filters(%s) raised %r" % (k, t, e)))
                continue
            looked.add(t)
            keys = set(got.keys()) if isinstance(got, dict) else set(got)
            asserted = assertable(world, t)
            if asserted:
                stats["probes"]["lookups_checked"] = stats["probes"].get("lookups_checked", 0) + 1
                if keys != set(exp):
                    kind = world.meta[t]["kind"]
                    missing = sorted(set(exp) - keys)
                    extra = sorted(keys - set(exp))
                    src = sorted(set(c.split(":")[0] for c in world.contributing(t) for p in missing if p in world.F.get(c, {})))
                    viols.append(V("C07.registry", "lookup-%s:%s%s" % ("stale-or-incomplete" if missing else "has-extra", kind,
                                                                        (":registered-on-" + "+".join(src)) if src else ""),
                                   "op %d get_filters(%s) = %s; filters in force now: %s (missing %s, extra %s)" % (
                                       k, t, sorted(keys), sorted(exp), missing, extra)))
                elif op["with_matches"]:
                    for p, b in got.items():
                        if b not in exp[p]:
                            viols.append(V("C07.registry", "lookup-budget", "op %d get_filters(%s, True)[%r] = %r, registered budgets %s" % (
                                k, t, p, b, sorted(exp[p]))))
                            break
            world.log.append((k, "look", t, sorted(keys)))


def assertable(world, key):
    """Look-ups the property speaks about: the filterable specs, their implementations, datasources chained on them."""
    m = world.meta[key]
    if m["kind"] == "rp":
        return m["filterable"]
    if m["kind"] == "impl":
        return m["filterable"]
    if m["kind"] == "chain":
        return world.meta[m["deps"][0]].get("filterable", False)
    if m["kind"] == "inner":
        return world.meta[m["of"]].get("filterable", False)
    return False


# ------------------------------------------------------------------------------------------------
# content laws
# ------------------------------------------------------------------------------------------------
def check_laws(path, lines, out, budgets, viols, respects_budget, faulted=False):
    """lines: original lines; out: produced lines; budgets: {filter: budget}.  faulted: an injected fault hit the
    pre-filter -- the content may then be incomplete or absent, never wrong: only laws (a) and (b) are demanded."""
    fl = sorted(budgets)
    # (a) order-preserving sub-sequence
    pos = []
    j = 0
    ok = True
    for o in out:
        while j < len(lines) and lines[j] != o:
            j += 1
        if j == len(lines):
            ok = False
            break
        pos.append(j)
        j += 1
    if not ok:
        foreign = [o for o in out if o not in lines]
        viols.append(V("C07.content", "%s:not-a-subsequence%s" % (path, ":foreign-line" if foreign else ":reordered-or-duplicated"),
                       "%s: output %r is not an order-preserving sub-sequence of input %r (filters %r)" % (path, out[:6], lines[:6], fl)))
        return
    kept = set(pos)
    # (b) every kept non-empty line contains a filter
    for i in pos:
        if lines[i] and not any(f in lines[i] for f in fl):
            viols.append(V("C07.content", "%s:kept-line-without-filter" % path, "%s: kept line %r contains none of %r" % (path, lines[i], fl)))
            break
    if faulted:
        return
    # (c) the last line matching each filter is kept
    for f in fl:
        last = [i for i, l in enumerate(lines) if f in l]
        if last and last[-1] not in kept:
            viols.append(V("C07.content", "%s:last-match-dropped%s" % (path, ":leading-dash" if f.startswith("-") else ""),
                           "%s: last line matching %r (%r) was dropped; filters %r" % (path, f, lines[last[-1]], fl)))
            break
    # (d) a dropped matching line is only legal if every filter it contains has used up its budget below it
    for i, l in enumerate(lines):
        if i in kept or not l:
            continue
        fs = [f for f in fl if f in l]
        if not fs:
            continue
        legal = respects_budget
        if legal:
            for f in fs:
                below = sum(1 for x in kept if x > i and f in lines[x])
                if below < budgets[f]:
                    legal = False
                    break
        if not legal:
            viols.append(V("C07.content", "%s:matching-line-dropped" % path,
                           "%s: line %r matches %r but was dropped although a budget is not used up (budgets %r)" % (path, l, fs, budgets)))
            break


def run_content(case, world, viols, stats):
    content = case["content"]
    lines = list(content["lines"])
    impls = sorted(k for k, m in world.meta.items() if m["kind"] == "impl" and k.endswith(".rf"))
    if not impls:
        return
    key = impls[-1]
    ds = world.objs[key]
    exp = world.model_look(key)
    budgets = dict((p, max(b)) for p, b in exp.items())     # the laws are checked against the most generous budget
    lowb = dict((p, min(b)) for p, b in exp.items())
    fresh = filters.get_filters(ds, True)
    if set(fresh) != set(exp):
        return          # already reported by the registry oracle; content laws need the registry and model to agree
    real_budgets = dict(fresh)
    root = tempfile.mkdtemp(prefix="w4-", dir=scratch_base())
    try:
        rel = "var/log/app.log"
        os.makedirs(os.path.join(root, "var/log"))
        data = "\n".join(lines) + ("\n" if content["trailing_newline"] and lines else "")
        with open(os.path.join(root, rel), "wb") as f:
            f.write(data.encode("utf-8"))
        # what "the original lines" are: the file read the way an unfiltered spec is read
        with open(os.path.join(root, rel), "r", encoding="utf-8") as f:
            orig = [l.rstrip("\n") for l in f]
        has_nul = any("\x00" in l for l in orig)
        if has_nul:
            stats["faults_fired"]["nul_byte_in_content"] = stats["faults_fired"].get("nul_byte_in_content", 0) + 1
        if any(p.startswith("-") for p in exp):
            stats["probes"]["filter_sets_with_leading_dash"] = stats["probes"].get("filter_sets_with_leading_dash", 0) + 1
        if exp and sorted(exp, reverse=True)[0].startswith("-"):
            stats["probes"]["filter_sets_whose_first_grep_pattern_has_leading_dash"] = \
                stats["probes"].get("filter_sets_whose_first_grep_pattern_has_leading_dash", 0) + 1
        sfx = ":nul-in-content" if has_nul else ""
        if any(len(l.splitlines()) > 1 for l in orig):
            stats["faults_fired"]["splitlines_boundary_inside_a_line"] = stats["faults_fired"].get("splitlines_boundary_inside_a_line", 0) + 1
            sfx += ":splitlines-boundary-in-line"
        if any("\r" in l for l in lines):
            # a carriage return inside a line: grep (the host pre-filter) does not take it for a line boundary, reading
            # the text in Python (universal newlines) does
            stats["faults_fired"]["lone_cr_inside_a_line"] = stats["faults_fired"].get("lone_cr_inside_a_line", 0) + 1
            sfx = ":lone-cr-in-line"
        # ---------------- P1f host pre-filter of a file (real grep through the real provider)
        hc = HostContext(root=root)
        pf = content.get("prefilter_fault") if exp else None
        try:
            prov = TextFileProvider(rel, root=root, ds=ds, ctx=hc)
            if not exp:
                viols.append(V("C07.content", "host-file:collected-without-filters", "filterable spec with no filter yielded a provider under a host context"))
            elif pf:
                # fault-injecting configuration (kept apart from the fault-free one): the spec may fail, it must not lie
                fpath = os.path.join(root, rel)
                mon = Monitor(faults=[Fault("popen", 1, getattr(errno, pf["errno"]))] if pf["kind"] == "popen" else [])
                if pf["kind"] == "vanish":
                    os.rename(fpath, fpath + ".1")
                try:
                    with mon:
                        try:
                            out = prov.content
                        except (ContentException, CalledProcessError, EnvironmentError):
                            out = None
                finally:
                    if pf["kind"] == "vanish":
                        os.rename(fpath + ".1", fpath)
                if pf["kind"] == "vanish" or mon.fired:
                    k = "prefilter_" + (pf["kind"] if pf["kind"] == "vanish" else "popen_" + pf["errno"])
                    stats["faults_fired"][k] = stats["faults_fired"].get(k, 0) + 1
                if out is None:
                    stats["probes"]["host_file_not_collected_after_prefilter_fault"] = stats["probes"].get("host_file_not_collected_after_prefilter_fault", 0) + 1
                else:
                    check_laws("host-file:prefilter-%s%s" % (pf["kind"], sfx), orig, out, budgets, viols, respects_budget=False, faulted=True)
            else:
                try:
                    out = prov.content
                except ContentException:
                    out = []
                check_laws("host-file" + sfx, orig, out, budgets, viols, respects_budget=False)
                stats["probes"]["path_host_file_grep"] = stats["probes"].get("path_host_file_grep", 0) + 1
        except NoFilterException:
            if exp:
                viols.append(V("C07.content", "host-file:refused-although-filters-exist", "NoFilterException although filters %r are in force" % sorted(exp)))
            else:
                stats["probes"]["host_refused_without_filters"] = stats["probes"].get("host_refused_without_filters", 0) + 1
        # ---------------- P1c host pre-filter of a command pipeline (real cat | grep)
        if exp:
            try:
                cp = CommandOutputProvider("/bin/cat %s" % os.path.join(root, rel), hc, ds=ds, keep_rc=bool(content.get("keep_rc")))
                cfault = pf is not None and pf["kind"] == "popen"
                mon = Monitor(faults=[Fault("popen", pf["nth"], getattr(errno, pf["errno"]))] if cfault else [])
                try:
                    with mon:
                        out = cp.content
                except (ContentException, CalledProcessError):
                    out = []          # "no line matched" (grep exit 1) and a failing pipeline both yield nothing
                except EnvironmentError:
                    if not mon.fired:
                        raise
                    out = []
                if mon.fired:
                    stats["faults_fired"]["command_pipeline_popen_" + pf["errno"]] = stats["faults_fired"].get("command_pipeline_popen_" + pf["errno"], 0) + 1
                check_laws("host-command" + (":prefilter-popen" if mon.fired else "") + sfx, orig, out, budgets, viols, respects_budget=False,
                           faulted=bool(mon.fired))
                stats["probes"]["path_host_command_grep"] = stats["probes"].get("path_host_command_grep", 0) + 1
            except NoFilterException:
                viols.append(V("C07.content", "host-command:refused-although-filters-exist", "NoFilterException although filters exist"))
        # ---------------- P2 post-filter on load (archive context)
        prov = TextFileProvider(rel, root=root, ds=ds, ctx=HostArchiveContext(root=root))
        out = prov.content
        if exp:
            check_laws("archive-load", orig, out, real_budgets, viols, respects_budget=True)
        elif out != orig:
            viols.append(V("C07.content", "archive-load:changed-without-filters", "no filters in force but content changed on load"))
        stats["probes"]["path_archive_post_filter"] = stats["probes"].get("path_archive_post_filter", 0) + 1
        # ---------------- P3 allow-list inside the cleaner
        if exp:
            redact = list(content.get("redact") or [])
            cl = Cleaner(None, {"patterns": redact} if redact else {}, fqdn="host.example.com")
            out = cl.clean_content(list(orig), no_obfuscate=["password", "keyword", "hostname", "ip", "ipv6", "mac"],
                                   allowlist=dict(real_budgets))
            # redaction comes first: the filter laws speak about the lines that survive it
            surv = [l for l in orig if not (l and any(p in l for p in redact))]
            check_laws("cleaner-allowlist" + (":with-redaction" if redact else ""), surv, out, real_budgets, viols, respects_budget=True)
            if redact:
                stats["probes"]["cleaner_allowlist_with_redaction"] = stats["probes"].get("cleaner_allowlist_with_redaction", 0) + 1
            if dict(real_budgets) != dict(fresh):
                viols.append(V("C07.content", "cleaner-allowlist:budgets-written-back", "clean_content modified the caller's allow-list"))
            stats["probes"]["path_cleaner_allowlist"] = stats["probes"].get("path_cleaner_allowlist", 0) + 1
            conc = content.get("concurrent")
            if conc:
                run_concurrent_allowlist(conc, orig, redact, real_budgets, viols, stats)
            # the static helper on its own
            out = AllowFilter.filter_content(list(orig), dict(real_budgets))
            check_laws("filter_content", orig, out, real_budgets, viols, respects_budget=True)
        # ---------------- P4 test helper
        out = list(filters.apply_filters(ds, list(orig)))
        if exp:
            check_laws("apply_filters", orig, out, budgets, viols, respects_budget=False)
        elif out != orig:
            viols.append(V("C07.content", "apply_filters:changed-without-filters", "no filters in force but apply_filters changed the content"))
        if any(b < 10000 for b in real_budgets.values()):
            stats["probes"]["content_runs_with_small_budget"] = stats["probes"].get("content_runs_with_small_budget", 0) + 1
    finally:
        shutil.rmtree(root, ignore_errors=True)


_CLEANER_FILES = []


def run_concurrent_allowlist(conc, orig, redact, real_budgets, viols, stats):
    """Two callers of ONE Cleaner at the same time, each with its own allow-list; every result must obey the laws for
    its own lines and budgets (and, the cleaner being stateless without obfuscation, equal the result of a lone call)."""
    import random
    from simkit.simpool import SimPool
    if not _CLEANER_FILES:
        import insights.cleaner as c0
        import insights.cleaner.filters as c1
        import insights.cleaner.pattern as c2
        _CLEANER_FILES.extend(m.__file__ for m in (c0, c1, c2))
    rot = conc["rotate"] % max(1, len(orig))
    jobs = [(list(orig), dict(real_budgets)), (list(orig[rot:] + orig[:rot]), dict(conc["allowlist"]))]
    noobf = ["password", "keyword", "hostname", "ip", "ipv6", "mac"]
    rm = {"patterns": list(redact)} if redact else {}
    cl = Cleaner(None, rm, fqdn="host.example.com")
    pool = SimPool(random.Random(conc["seed"]), max_workers=None, policy=conc["policy"], traced_files=tuple(_CLEANER_FILES), max_steps=60000)
    outs = []
    try:
        futs = [pool.submit(cl.clean_content, list(ln), no_obfuscate=noobf, allowlist=dict(al)) for ln, al in jobs]
        for f in futs:
            try:
                outs.append(f.result())
            except HarnessError:
                raise
            except Exception as e:
                outs.append(e)
    finally:
        pool.shutdown()
    stats["probes"]["concurrent_allowlist_runs"] = stats["probes"].get("concurrent_allowlist_runs", 0) + 1
    stats["probes"]["concurrent_allowlist_switches"] = stats["probes"].get("concurrent_allowlist_switches", 0) + len(pool.switches)
    for (ln, al), out in zip(jobs, outs):
        if isinstance(out, Exception):
            viols.append(V("C07.content", "cleaner-allowlist:concurrent:raised", "clean_content raised %r under a concurrent caller" % (out,)))
            continue
        surv = [l for l in ln if not (l and any(p in l for p in redact))]
        n0 = len(viols)
        check_laws("cleaner-allowlist:concurrent", surv, out, al, viols, respects_budget=True)
        if len(viols) == n0:
            ref = Cleaner(None, rm, fqdn="host.example.com").clean_content(list(ln), no_obfuscate=noobf, allowlist=dict(al))
            if ref != out:
                viols.append(V("C07.content", "cleaner-allowlist:concurrent:differs-from-lone-call",
                               "allow-list %r: lone call %r, with a concurrent caller %r" % (al, ref[:5], out[:5])))


def run_case(case):
    viols = []
    stats = {"faults_fired": {}, "probes": {}}
    world = FilterWorld(case)
    with registry.scope():
        run_history(case, world, viols, stats)
        if not any(v["oracle"] == "C07.registry" for v in viols):
            run_content(case, world, viols, stats)
    dg = digest([world.log, [(v["oracle"], v["cls"]) for v in viols]])
    return {"digest": dg, "sig": dg, "violations": viols, "stats": stats,
            "nontrivial": stats["probes"].get("registrations_after_a_lookup", 0) > 0 or len(case["content"]["lines"]) > 1,
            "sim_seconds": 0.0,
            "distinct": {"histories": digest(case["ops"]), "contents": digest(case["content"])}}


def shrink(case):
    n = len(case["ops"])

    def valid(c):
        """Every reference points at something defined earlier."""
        have = set("rp:" + r["name"] for r in c["rps"])
        ncls = 0
        for o in c["ops"]:
            k = o["op"]
            if k == "defclass":
                ncls += 1
                if not o["impls"]:
                    return False
                for rn in o["impls"]:
                    if "rp:" + rn not in have:
                        return False
                    have.add("impl:%s.%s" % (o["name"], rn))
                    for x in range((o.get("inner") or {}).get(rn, 0)):
                        have.add("inner:%s.%s.%d" % (o["name"], rn, x))
            elif k == "defparser":
                if o["on"] not in have:
                    return False
                have.add("parser:" + o["name"])
            elif k == "defcombiner":
                if any("parser:" + p not in have for p in o["on"]):
                    return False
                have.add("combiner:" + o["name"])
            elif k == "defchain":
                if o["on"] not in have:
                    return False
                have.add("chain:" + o["name"])
            elif o["target"] not in have:
                return False
        return ncls >= 1
    chunk = n // 2
    while chunk >= 2:
        for a in range(0, n, chunk):
            c = _copy(case)
            del c["ops"][a:a + chunk]
            if valid(c):
                yield c
        chunk //= 2
    for k in reversed(range(n)):
        c = _copy(case)
        del c["ops"][k]
        if valid(c):
            yield c
    lines = case["content"]["lines"]
    if lines:
        c = _copy(case)
        c["content"]["lines"] = []
        yield c
        for k in reversed(range(len(lines))):
            c = _copy(case)
            del c["content"]["lines"][k]
            yield c
    for k, o in enumerate(case["ops"]):
        if o["op"] == "add":
            p = o["patterns"]
            if isinstance(p, list) and len(p) > 1:
                for x in range(len(p)):
                    c = _copy(case)
                    del c["ops"][k]["patterns"][x]
                    yield c
            if isinstance(p, dict) and "set" in p and len(p["set"]) > 1:
                for x in range(len(p["set"])):
                    c = _copy(case)
                    del c["ops"][k]["patterns"]["set"][x]
                    yield c
            if o["max"] != 10000:
                c = _copy(case)
                c["ops"][k]["max"] = 10000
                yield c
        if o["op"] == "defclass" and len(o["impls"]) > 1:
            for x in range(len(o["impls"])):
                c = _copy(case)
                del c["ops"][k]["impls"][x]
                del c["ops"][k]["h"][x]
                if valid(c):
                    yield c
        if o["op"] == "defclass" and any((o.get("inner") or {}).values()):
            for rn, nin in sorted(o["inner"].items()):
                if nin:
                    c = _copy(case)
                    c["ops"][k]["inner"][rn] = nin - 1
                    if valid(c):
                        yield c
        if o["op"] == "look" and o["with_matches"]:
            c = _copy(case)
            c["ops"][k]["with_matches"] = False
            yield c
    if len(case["rps"]) > 3:
        c = _copy(case)
        del c["rps"][3]
        if valid(c):
            yield c


class C07(Check):
    title = "Filtered specs keep exactly the lines that match a registered filter"
    quick = dict(runs=100000, wall=100)
    thorough = dict(runs=2500000, wall=1500)
    rule = ("case = history of 5-28 (thorough 40) operations on the real filter registry: add_filter(target in {registry point, "
            "implementation, parser, combiner, chained datasource}, str | list | set, budget) incl. the documented rejections, "
            "get_filters(ds[, True]), late definition of implementation classes / parsers / combiners / chained datasources in "
            "the middle of the history; then content (0-20 marker-tagged lines over printable ASCII incl. regex metacharacters, "
            "tabs, leading dashes, non-ASCII, NUL, the characters str.splitlines() breaks at, lone CR) pushed through 6 filter "
            "paths: host file + real grep -F, host command pipeline cat | grep -F, archive post-filter, Cleaner allow-list, "
            "AllowFilter.filter_content, apply_filters; in 30% a second caller with another allow-list enters the same Cleaner "
            "at the same time (SimPool, seeded schedule); implementations of the non-filterable spec built on the implementation "
            "of the filterable one (one datasource, two registry points); command specs with keep_rc=True (40%); 0.2% filter "
            "lists of 700-1500 long filters (35-100 kB on grep's command line) with one line per filter; "
            "non-trivial = a registration after a look-up, or content of >= 2 lines; distinct = digest of (history log, violations)")
    real_vs_stub = {
        "insights.core.filters.add_filter / get_filters / apply_filters (+ _CACHE, FILTERS)": "real",
        "SpecSetMeta / RegistryPoint / datasource / parser / combiner decorators": "real",
        "TextFileProvider + HostContext.shell_out + util.subproc + /usr/bin/grep": "real (real process)",
        "CommandOutputProvider pipeline /bin/cat | grep -F": "real (real processes)",
        "AllowFilter.filter_content / Cleaner.clean_content allow-list": "real",
        "file content": "generated, written to a private scratch tree (tmpfs)",
    }
    assumptions = [
        "filters contain no line break and no NUL (argv cannot carry them); content lines contain no character str.splitlines treats as a break",
        "content is valid UTF-8 (the grep path decodes with errors='ignore', the file path with surrogateescape)",
        "GNU grep 3.8 of the sandbox; another grep may treat binary-looking input differently",
        "law (d) is the necessary condition of 'budget used up' under the code's one-key-per-line accounting, so it cannot over-demand",
        "look-ups are asserted on filterable specs, their implementations and datasources chained on them (what the property speaks about)",
    ]

    def __init__(self, prop):
        self.prop = prop

    e2e_share = 0.04

    def generate(self, st, tier):
        if st.knob.random() < self.e2e_share:
            # end-to-end clause: collection on a simulated host with filterable specs (W2)
            from worlds import w2_collect
            return w2_collect.gen_e2e(st, tier, "C07")
        return gen_case(st, tier)

    def execute(self, case):
        if case.get("w") == "w2e":
            from worlds import w2_collect
            return w2_collect.run_e2e(case, "C07")
        return run_case(case)

    def shrink(self, case):
        if case.get("w") == "w2e":
            from worlds import w3_cleaner
            return w3_cleaner.shrink_e2e(case)
        return shrink(case)


def get_check(prop):
    return C07(prop)
