"""Registry of property checks: property id -> (module, factory)."""
CHECKS = {
    "C01": ("worlds.w1_engine", "get_check"),
    "C02": ("worlds.w1_engine", "get_check"),
    "C03": ("worlds.w1_engine", "get_check"),
    "C04": ("worlds.w1_engine", "get_check"),
    "C05": ("worlds.w1_specs", "get_check"),
    "C06": ("worlds.w2_collect", "get_check"),
    "C07": ("worlds.w4_filters", "get_check"),
    "C08": ("worlds.w3_cleaner", "get_check"),
    "C09": ("worlds.w3_cleaner", "get_check"),
    "C10": ("worlds.w3_cleaner", "get_check"),
    "C11": ("worlds.w2_collect", "get_check"),
    "C12": ("worlds.w1_rules", "get_check"),
    "C17": ("worlds.w5_clientstate", "get_check"),
}
