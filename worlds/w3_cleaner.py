"""World W3 -- histories through one stateful Cleaner (C08, C09, C10).

A case is a configuration (obfuscation switches, keyword list, exclusion patterns in plain or regular-
expression form incl. POSIX classes, the system's FQDN) and a *history* of 1-6 specs pushed through ONE
``Cleaner`` instance, each spec a list of lines with its own exemptions (no_obfuscate subset, no_redact),
optional allow-list and width flag.  Lines are sequences of typed segments (filler, delimiter, IPv4, host,
system fqdn, short name, MAC, keyword, pattern text, password assignment, marker), so the oracles know exactly
what was planted.  The schedule dimension is the process hash seed: every case is executed by two (thorough:
more) interpreters that differ only in PYTHONHASHSEED and the outputs are compared (C10).

Vocabulary discipline keeps the oracles sound: in the *base* regime no planted token can textually coincide
with, or contain, anything the obfuscators emit or another planted token (except a deliberately generated
"suffix pair" of host names); a separate *collision* regime plants originals that equal issued substitutes.
"""
import hashlib
import json
import os
import random
import re
import shutil
import tempfile

from simkit import bootstrap, HarnessError

bootstrap()

from simkit.runner import Check, scratch_base   # noqa: E402
from simkit.seeds import digest                 # noqa: E402

from insights.cleaner import Cleaner            # noqa: E402
from worlds import w2_collect                   # noqa: E402,F401  (the end-to-end share: its imports -- DefaultSpecs -- belong to the base registry)

SAFE = "gijnquvz"                 # letters that occur in no substitute vocabulary (hex, host<N>, example.com, keyword<N>)
DELIMS = [" ", " ", " ", "\t", ",", ";", ":", "/", "(", ")", "[", "]", "=", '"', "'", "<", ">", "@", "#", "|", "!", "?", "{", "}"]
# characters str.splitlines() treats as line boundaries but a text-mode file iterator / readlines() does not: inside a line
CTRL_DELIMS = ["\x0b", "\x0c", "\x1c", "\x1d", "\x1e", "\x85", "\u2028", "\u2029"]
# addresses textually next to the one exempt address (127.0.0.1): none of them is exempt
NEAR_LOOPBACK = ["27.0.0.1", "7.0.0.1", "127.0.0.2", "127.0.0.11", "127.0.0.0", "127.0.1.1", "27.0.0.0", "1.0.0.1"]
FILL = ["gizmo", "zur", "qing", "vunj", "the", "of", "link", "up", "ERROR", "WARN", "42", "7", "x", "inet", "ether", "--", "->"]
ADORN_PRE = ["http://", "https://", "tcp://"]
ADORN_POST = ["/24", "/8", ":8080", ":22", "/index.html", "/32"]
KEYWORDS = ["QUUX", "ZORGON", "JINXY", "VIZQ", "NUNQ", "GIZZ"]
PLAIN_PATTERNS = ["GGJ", "ZZTOP", "QVINJ", "SECRETZ"]
REGEX_PATTERNS = [("QV[[:upper:]]+NJ", "QV[A-Z]+NJ", ["QVXNJ", "QVZZINJ"]),
                  ("ZZ[0-9]+TOP", "ZZ[0-9]+TOP", ["ZZ4TOP", "ZZ2024TOP"]),
                  ("GG[[:digit:]]{2}J", "GG[0-9]{2}J", ["GG42J"]),
                  ("^WIPE[[:space:]]", "^WIPE\\s", ["WIPE "]),
                  # capturing groups and numbered back-references (each pattern is a regular expression of its own)
                  ("(ZAPI|ZSEC)KEY", "(ZAPI|ZSEC)KEY", ["ZAPIKEY", "ZSECKEY"]),
                  ("UU=([G-Z]+) OO=\\1Z", "UU=([G-Z]+) OO=\\1Z", ["UU=QQ OO=QQZ", "UU=JIV OO=JIVZ"]),
                  ("(NN)+([[:upper:]])\\2", "(NN)+([A-Z])\\2", ["NNNNXX", "NNZZ"])]
ALL_OBF = ["hostname", "ip", "ipv6", "keyword", "mac", "password"]
WORD = "abcdefghijklmnopqrstuvwxyzABCDEFGHIJKLMNOPQRSTUVWXYZ0123456789_"


class Cfg(object):
    def __init__(self, **k):
        self.__dict__.update(k)


def V(oracle, cls, message):
    return {"oracle": oracle, "cls": cls, "message": message}


# ------------------------------------------------------------------------------------------------
# generator
# ------------------------------------------------------------------------------------------------
def name(rng, lo=3, hi=8):
    n = "".join(rng.choice("abcdefghijklmnopqrstuvwxyz0123456789") for _ in range(rng.randint(lo, hi)))
    i = rng.randrange(len(n))
    n = n[:i] + rng.choice(SAFE) + n[i + 1:]
    if n[0].isdigit():
        n = rng.choice(SAFE) + n[1:]
    return n


def ipv4(rng):
    while True:
        o = [rng.randint(1, 255)] + [rng.randint(0, 255) for _ in range(3)]
        ip = ".".join(map(str, o))
        if ip != "127.0.0.1" and not ip.startswith("10.230.") and "230.230" not in ip:
            return ip


def mac(rng):
    while True:
        sep = rng.choice(":::-")
        m = sep.join("%02x" % rng.randint(0, 255) for _ in range(6))
        if m.replace("-", ":") in ("00:00:00:00:00:00", "ff:ff:ff:ff:ff:ff"):
            continue
        return m.upper() if rng.random() < 0.3 else m


def ipv6_variants(rng):
    """One IPv6 address in several notations: (list of distinct spellings).  No leading '::' (the recogniser's own
    FIXME), at least one group with fewer than four digits so that padding makes a difference."""
    groups = []
    for k in range(8):
        r = rng.random()
        if 2 <= k <= 5 and r < 0.35:
            groups.append(0)
        else:
            groups.append(rng.randint(1, 0xffff) if r < 0.7 else rng.randint(1, 0xff))
    groups[0] = rng.choice([0x2001, 0xfe80, 0xfd12, 0x2a02])
    if all(g > 0xfff for g in groups if g):
        groups[7] = rng.randint(1, 0xff)
    plain = ":".join("%x" % g for g in groups)
    padded = ":".join("%04x" % g for g in groups)
    mixed = ":".join(("%04x" % g) if rng.random() < 0.5 else ("%x" % g) for g in groups)
    out = [plain, padded, mixed, plain.upper()]
    # compress the first run of >= 2 zero groups
    best = None
    k = 1
    while k < 8:
        if groups[k] == 0:
            j = k
            while j < 8 and groups[j] == 0:
                j += 1
            if j - k >= 2 and j < 8 and best is None:
                best = (k, j)
            k = j
        else:
            k += 1
    if best:
        a, b = best
        out.append(":".join("%x" % g for g in groups[:a]) + "::" + ":".join("%x" % g for g in groups[b:]))
    res = []
    for v in out:
        if v not in res:
            res.append(v)
    return res


def mac_substitute(m):
    """Reference of the documented substitute of a MAC address: every octet becomes the first two hex digits of the
    SHA-1 of its lower-case text; separator and letter case are kept."""
    import hashlib
    sep = "-" if "-" in m else ":"
    out = sep.join(hashlib.sha1(h.lower().encode()).hexdigest()[:2] for h in m.split(sep))
    return out.upper() if m.isupper() else out


def clean_vocabulary(case, pool):
    """No replaceable token may occur inside any other planted text (token or filler): its replacement would alter
    the other one and the oracles could not tell a defect from an accident of the vocabulary.  Exempt are the two
    deliberately generated pairs (a host name that is a suffix of another, an address that is a prefix of another),
    which the code claims to handle by replacing the longest first."""
    short = case["fqdn"].split(".")[0]
    repl = [t for k, t in pool if k != "short"]
    secrets = [sg[2] for spec in case["specs"] for segs in spec["lines"] for sg in segs if sg[0] == "pw"]
    texts = repl + FILL + ADORN_PRE + ADORN_POST + secrets
    exempt = set()
    if case.get("suffix_pair"):
        exempt.add(tuple(case["suffix_pair"]))
    if case.get("prefix_pair"):
        exempt.add(tuple(case["prefix_pair"]))
    for a in repl:
        for b in texts:
            if a != b and a in b and (a, b) not in exempt:
                return False
    # the short name is replaced wherever it occurs
    for b in [t for k, t in pool if k not in ("short", "fqdn")] + FILL + ADORN_PRE + ADORN_POST + KEYWORDS + secrets + ["password", "example", "host", "keyword",
                                                                                                "passwordHash", "password_x", "md5"]:
        if short in b:
            return False
    return True


def gen_case(st, tier, flavour):
    rp, rf, rk = st.prog, st.fault, st.knob
    for _attempt in range(200):
        case = _gen_case(rp, rf, rk, tier, flavour)
        if clean_vocabulary(case, case["_pool"]):
            case.pop("_pool")
            return case
    raise HarnessError("could not generate a case with a clean vocabulary")


def _gen_case(rp, rf, rk, tier, flavour):
    dom = name(rp) + "." + rp.choice(["test", "corp.lan", "int"])
    short = name(rp)
    has_dom = rp.random() < 0.9
    fqdn = short + "." + dom if has_dom else short
    hosts = [name(rp) + "." + dom for _ in range(rp.randint(0, 3))] if has_dom else []
    suffix_pair = None
    if has_dom and hosts and rp.random() < 0.25:
        a = hosts[0]
        b = name(rp, 1, 3).replace(".", "") + a          # "db1.corp" and "mydb1.corp": one is a suffix of the other
        hosts.append(b)
        suffix_pair = [a, b]
    if has_dom and rp.random() < 0.12:
        # a name that belongs to the domain only because the recogniser interpolates the domain unescaped ('.' = any
        # character): "db1.corp-test" next to the system's "web1.corp.test".  The recogniser treats it as a host of the
        # domain, so it is an original like any other.
        hosts.append(name(rp) + "." + dom.replace(".", rp.choice(["-", "_", "x"]), 1))
    if has_dom and hosts and rk.random() < 0.2:
        # the same host under another capitalisation of its label (another program's log may spell it differently);
        # the recogniser is case-sensitive on the label, so this is an original of its own
        lab, rest = hosts[0].split(".", 1)
        var = lab.capitalize() if lab.capitalize() != lab else lab.upper()
        if var != lab:
            hosts.append(var + "." + rest)
    hostdc = []
    if flavour == "C08" and has_dom and rk.random() < 0.03:
        # another host of the system's domain, the DOMAIN spelled in another capitalisation (host names compare
        # case-insensitively; Kerberos / AD tools print them in upper case).  A token kind of its own: the other oracles
        # take it for filler, the leak oracle reports it under a class of its own (known finding K11)
        d2 = dom.upper() if rk.random() < 0.5 else ".".join(x.capitalize() for x in dom.split("."))
        if d2 != dom:
            hostdc = [name(rp) + "." + d2]
    ips = [ipv4(rp) for _ in range(rp.randint(0, 4))]
    if rp.random() < 0.06:
        ips += rp.sample(NEAR_LOOPBACK, rp.randint(1, 2))
    if rp.random() < 0.08:
        # a host with many addresses: the substitute counter crosses 10.230.230.9 -> .10 (and, rarely, a whole octet)
        ips = [ipv4(rp) for _ in range(rp.choice([11, 12, 15, 25, 40]))]
    prefix_pair = None
    if ips and rp.random() < 0.2:
        # an address that is a textual prefix of another one
        base = ips[0]
        last = base.rsplit(".", 1)
        if len(last[1]) < 3 and last[1] != "0" and int(last[1] + "1") <= 255:
            ips.append(last[0] + "." + last[1] + "1")
            prefix_pair = [base, ips[-1]]
    macs = [mac(rp) for _ in range(rp.randint(0, 3))]
    mac_twins = []
    if macs and rp.random() < 0.3:
        m0 = macs[0]
        tw = m0.lower() if m0.isupper() else m0.upper()
        if tw != m0:
            macs.append(tw)                 # the same address in the other letter case (HWADDR= style vs ip addr style)
            mac_twins.append([m0, tw])
    ip6s = []
    ip6_twins = []
    for _ in range(rp.choice([0, 0, 1, 1, 2])):
        vs = ipv6_variants(rp)
        pick = rp.sample(vs, min(len(vs), rp.choice([1, 2, 2, 3])))
        ip6s.extend(pick)
        ip6_twins.extend([pick[0], x] for x in pick[1:])
    kws = rp.sample(KEYWORDS, rp.randint(0, 3))
    regex = rp.random() < 0.35
    if regex:
        chosen = rp.sample(REGEX_PATTERNS, rp.randint(0, 2))
        patterns = {"regex": [c[0] for c in chosen]}
        pat_texts = [t for c in chosen for t in c[2]]
    else:
        chosen = rp.sample(PLAIN_PATTERNS, rp.randint(0, 2))
        patterns = {"plain": list(chosen)}
        pat_texts = list(chosen)
    obf = rk.random() < 0.85
    cfg = {"obfuscate": obf, "obfuscate_hostname": obf and rk.random() < 0.75, "obfuscate_ipv6": obf and rk.random() < 0.5,
           "obfuscate_mac": obf and rk.random() < 0.75}
    pool = [("ip", x) for x in ips] + [("mac", x) for x in macs] + [("kw", x) for x in kws] + [("pat", x) for x in pat_texts]
    pool += [("ip6", x) for x in ip6s]
    pool += [("host", x) for x in hosts] + [("fqdn", fqdn), ("short", short)] + [("hostdc", x) for x in hostdc]
    marker_mode = rp.random() < (0.7 if flavour != "C08" else 0.4)
    collision = flavour == "C09" and rk.random() < 0.04
    k6 = flavour == "C08" and rk.random() < 0.03
    specs = []
    nm = 0
    delims = DELIMS + (CTRL_DELIMS if rk.random() < 0.1 else [])
    for s in range(rp.randint(1, 6 if tier == "thorough" else 4)):
        lines = []
        for _ in range(rp.randint(0, 8 if tier == "thorough" else 6)):
            segs = []
            if marker_mode:
                segs.append(["mk", "~m%d~" % nm])
                nm += 1
                segs.append(["d", " "])
            r0 = rp.random()
            if r0 < 0.06 and not marker_mode:
                lines.append([])                 # an empty line
                continue
            for i in range(rp.randint(0, 6)):
                if i:
                    segs.append(["d", rp.choice(delims)])
                r = rp.random()
                if r < 0.55 and pool:
                    k, t = rp.choice(pool)
                    if k == "mac" and k6 and rp.random() < 0.5:
                        # a MAC abutting ':' or '-' (non-word characters): the recogniser's look-arounds skip it
                        if segs and segs[-1][0] == "d":
                            segs[-1] = ["d", rp.choice([":", "-"])]
                        segs.append([k, t])
                        continue
                    if k in ("mac",) and segs and segs[-1] == ["d", ":"]:
                        segs[-1] = ["d", " "]
                    if k == "ip" and rp.random() < 0.12:
                        segs.append(["f", rp.choice(ADORN_PRE)])      # an address inside a URL
                    segs.append([k, t])
                    if k == "ip" and rp.random() < 0.3:
                        # an address followed by a netmask, a port or a path (the adornment is not sensitive)
                        segs.append(["f", rp.choice(ADORN_POST)])
                elif r < 0.63:
                    key = "password" + rp.choice(["", "_x", "2", "Hash"])
                    sep = rp.choice(["=", ": ", " = ", "=\"", " ", ":", "==", " --md5 "])
                    secret = "S3" + name(rp) + rp.choice(["!", "", "/-", "#1"])
                    if segs and segs[-1][0] == "d" and segs[-1][1] not in (" ", "\t"):
                        segs[-1] = ["d", " "]
                    segs.append(["pw", key + sep, secret])
                    # further password keys on the line are whitespace separated, and nothing is glued to a secret
                    # (one-line records, several --password= options)
                    more = rp.choice([0, 0, 0, 1, 2, 3])
                    for _m in range(more):
                        segs.append(["d", " "])
                        segs.append(["pw", "password" + rp.choice(["", "_x", "2", "Hash"]) + rp.choice(["=", ": ", " = ", ":", "=="]),
                                     "S3" + name(rp) + rp.choice(["!", "", "#1"])])
                    segs.append(["d", " "])
                    segs.append(["f", rp.choice(FILL)])
                    break
                else:
                    segs.append(["f", rp.choice(FILL)])
            # a MAC must not be followed by ':' or '-' either, unless the K6 regime asked for it
            if not k6:
                for j in range(len(segs) - 1):
                    if segs[j][0] == "mac" and segs[j + 1][0] == "d" and segs[j + 1][1] in (":",):
                        segs[j + 1] = ["d", " "]
            if not marker_mode and rp.random() < 0.15 and segs:
                segs.insert(0, ["d", rp.choice(delims)])
            if rp.random() < 0.15 and segs:
                segs.append(["d", rp.choice(delims)])
            for j, sg in enumerate(segs):
                if sg[0] == "ip6":
                    # an IPv6 address stands between blanks (its recogniser refuses ':', '.', '-' and word characters next to it)
                    for nb in (j - 1, j + 1):
                        if 0 <= nb < len(segs) and segs[nb][0] == "d":
                            segs[nb] = ["d", " "]
            if not k6:
                # outside the K6 regime no MAC touches ':' (or '-'): the recogniser's look-arounds would skip it
                for j, sg in enumerate(segs):
                    if sg[0] == "mac":
                        for nb in (j - 1, j + 1):
                            if 0 <= nb < len(segs) and segs[nb][0] == "d" and segs[nb][1] in (":", "-"):
                                segs[nb] = ["d", " "]
            lines.append(segs)
            if not marker_mode and segs and rp.random() < 0.08:
                lines.append(json.loads(json.dumps(segs)))          # the same line twice
        spec = {"lines": lines,
                "no_obfuscate": [x for x in ALL_OBF if rk.random() < 0.1],
                "no_redact": rk.random() < 0.1,
                "allowlist": None, "width": False, "via": "content"}
        if len(lines) == 1 and rk.random() < 0.3:
            spec["via"] = "single"            # clean_content(<one string>) instead of a list of lines
        elif flavour in ("C08", "C10") and rk.random() < 0.08:
            spec["via"] = "file"              # Cleaner.clean_file on a file in the scratch area
        if rk.random() < 0.12:
            spec["allowlist"] = dict((w, 10000) for w in rk.sample(["ERROR", "link", "inet", "gizmo", "~m"], rk.randint(1, 2)))
        if rk.random() < (0.1 if flavour == "C10" else 0.07):
            # column-preserving mode of the netstat spec: the replacement re-aligns (and may eat) what follows an address,
            # so C10 claims determinism only, C08 that no original survives, C09 that no REPORTED original survives
            spec["width"] = True
            for segs in lines:
                ipos = [j for j, sg in enumerate(segs) if sg[0] == "ip"]
                if ipos and rp.random() < 0.35:
                    # a textual copy of the address the recogniser does not see (glued to a word character), left of it
                    j = ipos[0]
                    segs[j:j] = [["f", rp.choice(["vip_", "x", "eth0_"]) + segs[j][1]], ["d", " " * 12]]
                # netstat columns: whatever follows an address (and its port) is a run of blanks wide enough for the
                # re-alignment, which removes up to six characters there WITHOUT looking at them
                for j, sg in enumerate(segs):
                    if sg[0] == "ip":
                        k = j + 1
                        if k < len(segs) and segs[k][0] == "f" and segs[k][1] in ADORN_POST:
                            k += 1
                        if k < len(segs) and segs[k][0] == "d":
                            segs[k] = ["d", " " * 12]
        specs.append(spec)
    case = {"w": "w3", "flavour": flavour, "cfg": cfg, "fqdn": fqdn, "keywords": kws, "patterns": patterns, "specs": specs,
            "kw_pad": rk.random() < 0.15, "facts_mid": (rk.randrange(len(specs)) if flavour == "C09" and rk.random() < 0.2 else None),
            "marker_mode": marker_mode, "regime": "collision" if collision else ("k6" if k6 else "base"),
            "suffix_pair": suffix_pair, "prefix_pair": prefix_pair, "mac_twins": mac_twins, "ip6_twins": ip6_twins, "_pool": pool}
    if rk.random() < 0.2:
        # another Cleaner, for another system, is built (and used once) in the middle of the history: cleaners of one
        # process are independent objects
        case["interloper"] = {"after": rk.randrange(len(specs)), "fqdn": rk.choice(["node7.lab.example.org", "mx.other-corp.lan", "standalone"])}
    if flavour == "C10" and rk.random() < 0.12:
        # the tuning knob MAX_LINE_LENGTH (1 MiB as shipped) turned down, so that lines are actually cut
        case["max_line"] = rk.choice([12, 20, 40, 80])
    if not cfg["obfuscate"] and len(specs) >= 2 and rk.random() < 0.6:
        case["concurrent"] = {"seed": rk.getrandbits(32),
                              "policy": ({"kind": "walk", "p": rk.choice([0.02, 0.05, 0.1, 0.3])} if rk.random() < 0.7 else
                                         {"kind": "pct", "depth": rk.choice([1, 2, 3]), "horizon": rk.choice([100, 300, 1000])})}
        case["facts_mid"] = None
    if collision:
        # plant originals that equal substitutes the obfuscator will have issued by then
        n_issued = len(ips)
        victim = "10.230.230.%d" % rk.randint(1, max(1, n_issued))
        extra = [[["mk", "~c%d~" % k], ["d", " "], ["ip", rp.choice(ips) if ips else "192.168.100.200"], ["d", " "], ["f", "x"],
                  ["d", " "], ["ip", victim]] for k in range(2)]
        specs.append({"lines": extra, "no_obfuscate": [], "no_redact": False, "allowlist": None, "width": False})
        case["collision_victim"] = victim
    elif flavour == "C09" and cfg["obfuscate_mac"] and rk.random() < 0.04:
        # an original MAC that equals the substitute of another original (A = f(B)), met in every order
        b = mac(rp)
        a = mac_substitute(b)
        if a.lower().replace("-", ":") not in ("00:00:00:00:00:00", "ff:ff:ff:ff:ff:ff") and a != b:
            order = rk.choice(["aba", "abab", "ab", "aab", "ba", "bab", "bba"])
            extra = [[["mk", "~c%d~" % k], ["d", " "], ["mac", a if o == "a" else b], ["d", " "], ["f", "x"]] for k, o in enumerate(order)]
            cut = rk.randrange(len(extra) + 1)
            for part in (extra[:cut], extra[cut:]):
                if part:
                    specs.append({"lines": part, "no_obfuscate": [], "no_redact": False, "allowlist": None, "width": False})
            case["regime"] = "mac-chain"
            case["mac_chain"] = {"a": a, "b": b, "order": order}
    return case


def text_of(segs):
    return "".join((s[1] + s[2]) if s[0] == "pw" else s[1] for s in segs)


# ------------------------------------------------------------------------------------------------
# execution
# ------------------------------------------------------------------------------------------------
def rm_conf_of(case):
    rm = {"keywords": [(" %s " % k if case.get("kw_pad") else k) for k in case["keywords"]]}     # configured with stray blanks
    p = case["patterns"]
    if "regex" in p:
        rm["patterns"] = {"regex": list(p["regex"])}
    else:
        rm["patterns"] = list(p["plain"])
    return rm


def py_patterns(case):
    p = case["patterns"]
    if "regex" in p:
        table = dict((c[0], c[1]) for c in REGEX_PATTERNS)
        return [("regex", table[x]) for x in p["regex"]]
    return [("plain", x) for x in p["plain"]]


class Run(object):
    pass


def run_history(case, facts_dir=None, serial=False):
    cfgd = dict(case["cfg"])
    if facts_dir:
        cfgd["rhsm_facts_file"] = os.path.join(facts_dir, "insights-client.facts")
    cfg = Cfg(**cfgd)
    if case.get("max_line"):
        import insights.cleaner as _cl
        saved_max = _cl.MAX_LINE_LENGTH
        _cl.MAX_LINE_LENGTH = case["max_line"]
        try:
            return run_history(dict(case, max_line=None), facts_dir=facts_dir, serial=serial)
        finally:
            _cl.MAX_LINE_LENGTH = saved_max
    c = Cleaner(cfg, rm_conf_of(case), fqdn=case["fqdn"])
    if facts_dir:
        c.report_dir = facts_dir
    # observe the order in which obfuscators / redactors are applied to each line
    order_log = []
    wrapped = []
    for group in (c.redact, c.obfuscate):
        for nm, obj in group.items():
            if obj is None:
                continue
            orig = obj.parse_line

            def wrapper(line, _nm=nm, _orig=orig, **kw):
                order_log.append(_nm)
                return _orig(line, **kw)
            obj.parse_line = wrapper
            wrapped.append(obj)
    r = Run()
    r.cleaner = c
    r.outputs = []
    r.raised = []
    r.orders = []
    r.snapshots = []

    def clean_spec(si, spec):
        raw = [text_of(segs) for segs in spec["lines"]]
        try:
            via = spec.get("via", "content")
            kwargs = dict(no_obfuscate=list(spec["no_obfuscate"]), no_redact=spec["no_redact"],
                          allowlist=(dict(spec["allowlist"]) if spec["allowlist"] is not None else None))
            if via == "single" and len(raw) == 1:
                one = c.clean_content(raw[0], width=spec["width"], **kwargs)
                out = [one] if one else []        # for the one-string form "dropped" is a falsy result (None or "")
            elif via == "file" and facts_dir:
                fp = os.path.join(facts_dir, "spec-%d.txt" % si)
                with open(fp, "w") as f:
                    f.write("".join(l + "\n" for l in raw))
                c.clean_file(fp, **kwargs)
                out = [l.rstrip("\n") for l in open(fp).readlines()] if os.path.exists(fp) else []
            else:
                out = c.clean_content(list(raw), width=spec["width"], **kwargs)
            return out, None
        except Exception as e:
            return None, repr(e)[:200]

    conc = case.get("concurrent") if not serial else None
    if conc:
        # one Cleaner entered by several caller threads at once (what collect() does with its thread pool while
        # obfuscation is off): every spec is one task of a SimPool, pre-empted at line events inside the cleaner
        import random
        from simkit.simpool import SimPool
        for obj in wrapped:
            del obj.parse_line                    # the application-order log is per history, not per thread
        pool = SimPool(random.Random(conc["seed"]), max_workers=None, policy=conc["policy"], traced_files=cleaner_files(),
                       max_steps=60000)
        try:
            futs = [pool.submit(clean_spec, si, spec) for si, spec in enumerate(case["specs"])]
            for f in futs:
                out, raised = f.result()
                r.outputs.append(out)
                r.raised.append(raised)
                r.orders.append([])
        finally:
            pool.shutdown()
        r.pool_switches = len(pool.switches)
        r.snapshots = [mappings(c) for _ in case["specs"]]
        r.final = mappings(c)
        return r
    for si, spec in enumerate(case["specs"]):
        del order_log[:]
        out, raised = clean_spec(si, spec)
        r.outputs.append(out)
        r.raised.append(raised)
        il = case.get("interloper")
        if il and il["after"] == si:
            try:
                Cleaner(cfg, rm_conf_of(case), fqdn=il["fqdn"]).clean_content(["interloper 192.0.2.77 on " + il["fqdn"]])
            except Exception:
                pass
        if raised is None and facts_dir and case.get("facts_mid") == si:
            try:
                c.generate_rhsm_facts()              # a report in the middle of the run must not disturb anything
            except Exception as e:
                r.outputs[-1] = None
                r.raised[-1] = repr(e)[:200]
        # per-line application order: split the flat log at each first parser
        r.orders.append(list(order_log))
        r.snapshots.append(mappings(c))
    r.final = mappings(c)
    return r


_CLEANER_FILES = []


def cleaner_files():
    if not _CLEANER_FILES:
        import insights.cleaner as c0
        import insights.cleaner.filters as c1
        import insights.cleaner.pattern as c2
        import insights.cleaner.keyword as c3
        import insights.cleaner.password as c4
        _CLEANER_FILES.extend(m.__file__ for m in (c0, c1, c2, c3, c4))
    return tuple(_CLEANER_FILES)


def mappings(c):
    out = {}
    for nm, key in (("ip", "ip"), ("hostname", "host"), ("mac", "mac"), ("keyword", "kw"), ("ipv6", "ipv6")):
        o = c.obfuscate.get(nm)
        # sorted: the order in which a report lists its pairs is not part of any property (Keyword keeps a set)
        out[key] = sorted((d["original"], d["obfuscated"]) for d in o.mapping()) if o else []
    return out


def occurs_token(tok, line, wordchars):
    for m in re.finditer(re.escape(tok), line):
        a, b = m.start(), m.end()
        if (a == 0 or line[a - 1] not in wordchars) and (b == len(line) or line[b] not in wordchars):
            return True
    return False


def planted(case, kinds):
    out = []
    for spec in case["specs"]:
        for segs in spec["lines"]:
            for s in segs:
                if s[0] in kinds and s[1] not in out:
                    out.append(s[1])
    return out


# ------------------------------------------------------------------------------------------------
# C08 -- nothing sensitive survives
# ------------------------------------------------------------------------------------------------
def oracle_c08(case, r, stats):
    viols = []
    cfg = case["cfg"]
    short = case["fqdn"].split(".")[0]
    pats = py_patterns(case)
    for si, spec in enumerate(case["specs"]):
        out = r.outputs[si]
        if out is None:
            stats["probes"]["clean_content_raised"] = stats["probes"].get("clean_content_raised", 0) + 1
            continue
        snap = r.snapshots[si]
        issued_ip = set(o for _, o in snap["ip"])
        issued_host = set(o for _, o in snap["host"])
        issued_mac = set(o for _, o in snap["mac"])
        issued_ip6 = set(o for _, o in snap["ipv6"])
        noobf = spec["no_obfuscate"]
        ips = planted({"specs": [spec]}, ("ip",))
        macs = planted({"specs": [spec]}, ("mac",))
        hosts = planted({"specs": [spec]}, ("host", "fqdn"))
        secrets = []
        for segs in spec["lines"]:
            for s in segs:
                if s[0] == "pw":
                    secrets.append(s[2])
        abutting = set()
        for segs in spec["lines"]:
            for j, s in enumerate(segs):
                if s[0] == "mac":
                    before = text_of(segs[:j])[-1:]
                    after = text_of(segs[j + 1:])[:1]
                    if before in (":", "-") or after in (":", "-"):
                        abutting.add(s[1])
        for o in out:
            if not spec["no_redact"]:
                for kind, p in pats:
                    if (kind == "plain" and p in o) or (kind == "regex" and re.search(p, o)):
                        viols.append(V("C08.leak", "pattern-line-survives:%s" % kind, "line %r survives although it matches exclusion pattern %r" % (o, p)))
            if "keyword" not in noobf:
                for k in case["keywords"]:
                    if k in o:
                        viols.append(V("C08.leak", "keyword-survives", "keyword %r survives in %r" % (k, o)))
            if "password" not in noobf:
                for sec in secrets:
                    if sec in o:
                        viols.append(V("C08.leak", "password-secret-survives", "secret %r survives in %r" % (sec, o)))
            if cfg["obfuscate"] and "ip" not in noobf:
                for ip in ips:
                    if ip not in issued_ip and occurs_token(ip, o, "0123456789."):
                        viols.append(V("C08.leak", "ipv4-survives", "address %r survives in %r" % (ip, o)))
            if cfg["obfuscate"] and cfg["obfuscate_hostname"] and "hostname" not in noobf:
                for h in hosts + [case["fqdn"], short]:
                    if h not in issued_host and h in o:
                        viols.append(V("C08.leak", "hostname-survives:%s" % ("short" if h == short else "fqdn"), "host name %r survives in %r" % (h, o)))
            if cfg["obfuscate"] and cfg["obfuscate_hostname"] and "hostname" not in noobf:
                for h in planted({"specs": [spec]}, ("hostdc",)):
                    if h in o:
                        viols.append(V("C08.leak", "hostname-survives:domain-in-other-case",
                                       "host %r of the system's domain (domain spelled in another capitalisation) survives in %r" % (h, o)))
            if cfg["obfuscate"] and cfg["obfuscate_ipv6"] and "ipv6" not in noobf:
                for a6 in planted({"specs": [spec]}, ("ip6",)):
                    if a6 not in issued_ip6 and occurs_token(a6, o, "0123456789abcdefABCDEF:"):
                        viols.append(V("C08.leak", "ipv6-survives", "address %r survives in %r" % (a6, o)))
            if cfg["obfuscate"] and cfg["obfuscate_mac"] and "mac" not in noobf:
                for m in macs:
                    if m not in issued_mac and occurs_token(m, o, "0123456789abcdefABCDEF_" + WORD):
                        cls = "mac-survives:abutting-colon-or-dash" if m in abutting else "mac-survives"
                        viols.append(V("C08.leak", cls, "MAC %r survives in %r" % (m, o)))
    return viols


# ------------------------------------------------------------------------------------------------
# C09 -- consistent, injective, reported
# ------------------------------------------------------------------------------------------------
def expected_outputs(case, final):
    """Rebuild every input line with each planted token replaced by the *reported* mapping."""
    cfg = case["cfg"]
    mp = dict((k, dict(v)) for k, v in final.items())
    hn_on = cfg["obfuscate"] and cfg["obfuscate_hostname"]
    pats = py_patterns(case)
    exps = []
    for spec in case["specs"]:
        noobf = spec["no_obfuscate"]
        exp = []
        if spec.get("width"):
            exps.append(None)             # column-preserving mode pads and eats text: no exact reconstruction
            continue
        for segs in spec["lines"]:
            raw = text_of(segs)
            if not spec["no_redact"] and raw and any((k == "plain" and p in raw) or (k == "regex" and re.search(p, raw)) for k, p in pats):
                continue
            if spec["allowlist"] is not None and raw and not any(a in raw for a in spec["allowlist"]):
                continue
            l = ""
            for s in segs:
                kind, t = s[0], s[1]
                if kind == "ip" and cfg["obfuscate"] and "ip" not in noobf and t != "127.0.0.1":
                    t = mp["ip"].get(t, "<UNREPORTED-ip:%s>" % t)
                elif kind == "mac" and cfg["obfuscate"] and cfg["obfuscate_mac"] and "mac" not in noobf:
                    t = mp["mac"].get(t, "<UNREPORTED-mac:%s>" % t)
                elif kind == "ip6" and cfg["obfuscate"] and cfg["obfuscate_ipv6"] and "ipv6" not in noobf:
                    t = mp["ipv6"].get(t, "<UNREPORTED-ipv6:%s>" % t)
                elif kind in ("host", "fqdn") and hn_on and "hostname" not in noobf and "." in t:
                    t = mp["host"].get(t, "<UNREPORTED-host:%s>" % t)
                elif kind in ("short", "fqdn") and hn_on and "hostname" not in noobf:
                    t = mp["host"].get(case["fqdn"], "<UNREPORTED-host:%s>" % case["fqdn"])
                elif kind == "kw" and "keyword" not in noobf:
                    t = mp["kw"].get(t, "<UNREPORTED-kw:%s>" % t)
                elif kind == "pw":
                    t = s[1] + ("********" if "password" not in noobf else s[2])
                l += t
            exp.append(l)
        if not any(exp):
            exp = []
        exps.append(exp)
    return exps


def oracle_c09(case, r, stats, facts_dir):
    viols = []
    regime = case["regime"]
    sfx = ":collision-regime" if regime == "collision" else (":mac-chain-regime" if regime == "mac-chain" else "")
    final = r.final
    for k in ("ip", "host"):
        subs = [o for _, o in final[k]]
        if len(set(subs)) != len(subs):
            viols.append(V("C09.injective", "two-originals-one-substitute:%s%s" % (k, sfx), "mapping %r gives two originals the same substitute" % (final[k],)))
        origs = [a for a, _ in final[k]]
        if len(set(origs)) != len(origs):
            viols.append(V("C09.consistent", "one-original-two-substitutes:%s%s" % (k, sfx), "mapping %r lists an original twice" % (final[k],)))
    mm = dict(final["mac"])
    for a, b in case.get("mac_twins") or []:
        if a in mm and b in mm and mm[a].lower() != mm[b].lower():
            viols.append(V("C09.consistent", "same-mac-two-substitutes:letter-case", "the address %s / %s got two unrelated substitutes %s / %s" % (a, b, mm[a], mm[b])))
    m6 = dict(final["ipv6"])
    for a, b in case.get("ip6_twins") or []:
        if a in m6 and b in m6:
            import ipaddress
            try:
                same = ipaddress.ip_address(m6[a]) == ipaddress.ip_address(m6[b])
            except ValueError:
                same = False
            if not same:
                viols.append(V("C09.consistent", "same-ipv6-two-substitutes:notation",
                               "one address written %s and %s got two different substitutes %s / %s" % (a, b, m6[a], m6[b])))
    exps = expected_outputs(case, final)
    for si, (exp, out) in enumerate(zip(exps, r.outputs)):
        if out is None:
            continue
        if exp is None:
            # width mode: whatever the report pairs with a substitute must be gone from that spec's output
            spec = case["specs"][si]
            if case["cfg"]["obfuscate"] and "ip" not in spec["no_obfuscate"]:
                issued = set(o for _, o in final["ip"])
                for orig, _sub in final["ip"]:
                    if orig in issued:
                        continue
                    for o in out:
                        if occurs_token(orig, o, "0123456789."):
                            viols.append(V("C09.consistent", "reported-original-left-in-output:ip:width-mode%s" % sfx,
                                           "spec %d (width mode): %r is reported as replaced but still stands in %r" % (si, orig, o)))
                            break
            continue
        if exp != out:
            bad = [(e, o) for e, o in zip(exp, out) if e != o][:1]
            kinds = set()
            for segs in case["specs"][si]["lines"]:
                for s in segs:
                    kinds.add(s[0])
            which = "unknown"
            if bad:
                e, o = bad[0]
                if "<UNREPORTED-" in e:
                    which = "unreported-" + e.split("<UNREPORTED-")[1].split(":")[0]
                else:
                    which = classify_mismatch(case, si, e, o)
            elif len(exp) != len(out):
                which = "line-count"
            viols.append(V("C09.consistent", "output-differs-from-reported-mapping:%s%s" % (which, sfx),
                           "spec %d: expected (tokens replaced by the reported mapping) vs actual: %r; lines %d vs %d" % (si, bad, len(exp), len(out))))
            break
    # no phantom originals
    alltext = "\n".join(text_of(segs) for spec in case["specs"] for segs in spec["lines"])
    for k in ("ip", "host", "mac", "kw", "ipv6"):
        for orig, _ in final[k]:
            if orig not in alltext and orig != case["fqdn"]:
                viols.append(V("C09.reported", "phantom-original:%s%s" % (k, sfx), "mapping lists %r which occurs nowhere in the content" % (orig,)))
    # the facts file carries the same pairs
    if facts_dir:
        try:
            r.cleaner.generate_rhsm_facts()
            facts = json.load(open(os.path.join(facts_dir, "insights-client.facts")))
            for key, k in (("insights_client.obfuscated_ipv4", "ip"), ("insights_client.obfuscated_hostname", "host"),
                           ("insights_client.obfuscated_mac", "mac"), ("insights_client.obfuscated_keyword", "kw"),
                           ("insights_client.obfuscated_ipv6", "ipv6")):
                got = sorted((d["original"], d["obfuscated"]) for d in json.loads(facts[key]))
                if got != sorted(final[k]):
                    viols.append(V("C09.reported", "facts-file-differs:%s" % k, "facts file %s = %r, mapping() = %r" % (key, got, sorted(final[k]))))
            stats["probes"]["facts_files_checked"] = stats["probes"].get("facts_files_checked", 0) + 1
        except HarnessError:
            raise
        except Exception as e:
            viols.append(V("C09.reported", "facts-file-unreadable", "generate_rhsm_facts: %r" % (e,)))
    return viols


def classify_mismatch(case, si, exp, out):
    """Which kind of planted token sits at the first differing position of the expected line."""
    n = 0
    while n < min(len(exp), len(out)) and exp[n] == out[n]:
        n += 1
    tail = exp[max(0, n - 25):n + 25]
    if re.search(r"[0-9a-f]{12}\.example\.com|host\d+\.example\.com", tail):
        return "host"
    if re.search(r"10\.230\.\d+\.\d+", tail):
        return "ip"
    if "keyword" in tail:
        return "keyword"
    if "********" in tail:
        return "password"
    if re.search(r"([0-9a-fA-F]{2}[:-]){5}[0-9a-fA-F]{2}", tail):
        return "mac"
    return "other"


# ------------------------------------------------------------------------------------------------
# C10 -- deterministic, order preserving, one-to-one, empty collapses
# ------------------------------------------------------------------------------------------------
def split_orders(flat, first_names):
    """Split the flat application log into per-line sequences."""
    seqs = []
    cur = []
    for n in flat:
        if cur and (n in first_names and cur and n == cur[0] or n in cur):
            seqs.append(cur)
            cur = []
        cur.append(n)
    if cur:
        seqs.append(cur)
    return seqs


def oracle_c10(case, r, stats):
    viols = []
    # one fixed order of application: every per-line sequence must be consistent with ONE total order
    rank = {}
    seen_pairs = {}
    for si, flat in enumerate(r.orders):
        for seq in split_orders(flat, ()):
            for a in range(len(seq)):
                for b in range(a + 1, len(seq)):
                    x, y = seq[a], seq[b]
                    if (y, x) in seen_pairs:
                        viols.append(V("C10.order", "obfuscators-applied-in-varying-order", "%s before %s here, %s before %s earlier (spec %d)" % (x, y, y, x, si)))
                        break
                    seen_pairs[(x, y)] = True
    for si, spec in enumerate(case["specs"]):
        out = r.outputs[si]
        if out is None:
            continue
        raw = [text_of(segs) for segs in spec["lines"]]
        if out and not any(o for o in out):
            viols.append(V("C10.empty", "all-blank-result-not-collapsed", "spec %d: result %r holds no non-blank line but is not empty" % (si, out)))
        if len(out) > len(raw):
            viols.append(V("C10.one-to-one", "more-output-lines-than-input", "spec %d: %d input lines, %d output lines" % (si, len(raw), len(out))))
        if case["marker_mode"]:
            in_m = [re.findall(r"~[mc]\d+~", x) for x in raw]
            out_m = [re.findall(r"~[mc]\d+~", x) for x in out]
            flat_in = [m[0] for m in in_m if m]
            bad = [o for o, m in zip(out, out_m) if len(m) != 1]
            if bad:
                viols.append(V("C10.one-to-one", "output-line-without-exactly-one-source", "spec %d: output line %r carries %d markers" % (si, bad[0], len(re.findall(r"~[mc]\d+~", bad[0])))))
                continue
            seq = [m[0] for m in out_m]
            j = 0
            ok = True
            for m in seq:
                while j < len(flat_in) and flat_in[j] != m:
                    j += 1
                if j == len(flat_in):
                    ok = False
                    break
                j += 1
            if not ok:
                viols.append(V("C10.order", "lines-reordered-or-duplicated", "spec %d: output markers %r are not a sub-sequence of input markers %r" % (si, seq, flat_in)))
    return viols


# ------------------------------------------------------------------------------------------------
# Checks
# ------------------------------------------------------------------------------------------------
REAL = {
    "insights.cleaner.Cleaner.clean_content (pipeline construction, bottom-up processing)": "real",
    "insights.cleaner.{pattern,keyword,password,ip,hostname,mac}.parse_line / mapping()": "real (wrapped only to log the order of application)",
    "insights.util.posix_regex.replace_posix": "real",
    "Cleaner.generate_rhsm_facts / write_report": "real, facts file redirected into the run's scratch directory (rhsm_facts_file option)",
    "determine_hostname (DNS)": "not called: the system FQDN is a case parameter (fqdn= argument)",
    "process hash seed": "owned by the runner: every case is executed under >= 2 PYTHONHASHSEED values",
}
ASSUME = [
    "base regime: planted originals cannot textually coincide with or contain anything the obfuscators emit, nor each other (except a generated suffix pair of host names)",
    "IPv4 originals are canonical dotted quads delimited by non-word characters other than '.'; hosts are delimited by characters outside [A-Za-z0-9._-]",
    "password secrets use the character class the masking expression claims; further password keys on a line are blank separated",
    "concurrent callers share a Cleaner only with obfuscation off (collect() refuses the parallel strategy otherwise)",
    "width mode (the netstat spec): an address is followed by a run of >= 12 blanks or ends the line, as netstat's columns are; the re-alignment removes up to six characters after an address without looking at them",
    "<= 6 specs x <= 8 lines x <= 7 tokens per line, token pools of <= 5 per kind (recurrence is forced)",
    "IPv6 originals (0-2 addresses, each in up to three notations: plain, zero padded, mixed, upper case, '::' compressed) stand between blanks and never start with '::' (the recogniser's own FIXME)",
]


class CleanerCheck(Check):
    flavour = None
    replicate = 0.02
    real_vs_stub = REAL
    assumptions = ASSUME

    def __init__(self, prop):
        self.prop = prop

    e2e_share = 0.03

    def generate(self, st, tier):
        if st.knob.random() < self.e2e_share:
            # end-to-end: the same kind of content collected on a simulated host with this cleaner in the broker (W2)
            from worlds import w2_collect
            return w2_collect.gen_e2e(st, tier, self.flavour)
        return gen_case(st, tier, self.flavour)

    def run_e2e(self, case):
        from worlds import w2_collect
        return w2_collect.run_e2e(case, self.flavour)

    def shrink(self, case):
        if case.get("w") == "w2e":
            return shrink_e2e(case)
        return shrink(case)

    def base_result(self, case, r, viols, stats):
        outs = [o for o in r.outputs]
        sig = digest([outs, r.final, r.raised])
        stats["probes"]["specs_cleaned"] = len(case["specs"])
        ntok = sum(1 for spec in case["specs"] for segs in spec["lines"] for s in segs if s[0] not in ("f", "d", "mk"))
        nontrivial = ntok >= 2
        if case.get("concurrent"):
            stats["probes"]["concurrent_histories"] = 1
            stats["probes"]["concurrent_history_switches"] = getattr(r, "pool_switches", 0)
        if case["regime"] != "base":
            stats["probes"]["cases_in_%s_regime" % case["regime"]] = 1
        if case.get("suffix_pair"):
            stats["probes"]["cases_with_suffix_host_pair"] = 1
        for spec in case["specs"]:
            for k in spec["no_obfuscate"]:
                stats["faults_fired"]["exempt_" + k] = stats["faults_fired"].get("exempt_" + k, 0) + 1
            if spec["no_redact"]:
                stats["faults_fired"]["no_redact"] = stats["faults_fired"].get("no_redact", 0) + 1
        return {"digest": sig, "sig": sig, "violations": viols, "stats": stats, "nontrivial": nontrivial, "sim_seconds": 0.0,
                "distinct": {"configs": digest([case["cfg"], case["keywords"], case["patterns"]])}}


class C08(CleanerCheck):
    flavour = "C08"
    title = "Nothing configured or recognised as sensitive survives cleaning"
    quick = dict(runs=400000, wall=100)
    thorough = dict(runs=4000000, wall=1500)
    rule = ("case = configuration (obfuscate / hostname / ipv6 / mac switches, 0-3 keywords, 0-2 exclusion patterns plain or "
            "regex with POSIX classes, system FQDN with 0-2 domain labels) x history of 1-4 (thorough 6) specs through ONE Cleaner, "
            "each with its own no_obfuscate subset, no_redact, optional allow-list, width flag; lines = typed segments (IPv4, "
            "host, fqdn, short name, MAC in ':'/'-' and upper/lower notation, keyword, pattern text, password assignment with 9 "
            "separators, fillers, 22 delimiters + in 10% of cases the 8 characters str.splitlines() breaks at) in marker or free mode "
            "(tokens at line start/end); entry points content list / single string / clean_file; addresses next to the exempt "
            "127.0.0.1; IPv6 addresses in up to three notations; width-mode (netstat) specs with column formatting; hosts matching "
            "the domain only through its unescaped dot; another Cleaner for another system built mid-history (20%); with "
            "obfuscation off 60% of multi-spec histories "
            "are cleaned by concurrent SimPool tasks sharing the Cleaner (seeded walk / PCT schedule, pre-emption at line events in "
            "insights/cleaner); oracle = no planted sensitive "
            "token survives unless exempt or equal to a substitute already issued in this history; non-trivial = >= 2 planted "
            "tokens; distinct = digest of outputs + mappings")

    def execute(self, case):
        if case.get("w") == "w2e":
            return self.run_e2e(case)
        stats = {"faults_fired": {}, "probes": {}}
        d = None
        if any(sp.get("via") == "file" for sp in case["specs"]):
            d = tempfile.mkdtemp(prefix="w3-", dir=scratch_base())
        try:
            r = run_history(case, facts_dir=d)
        finally:
            if d:
                shutil.rmtree(d, ignore_errors=True)
        viols = oracle_c08(case, r, stats)
        return self.base_result(case, r, viols, stats)


class C09(CleanerCheck):
    flavour = "C09"
    e2e_share = 0.0
    title = "Obfuscation is a consistent mapping, injective for IPs and hosts, and reported"
    quick = dict(runs=300000, wall=100)
    thorough = dict(runs=4000000, wall=1500)
    rule = ("case = as C08 (width off) with small token pools recurring within a line, across lines and across specs, a generated "
            "suffix pair of host names in 25% of cases, an address that is a textual prefix of another in 20%, a collision "
            "regime (4%) planting IPv4 originals equal to issued substitutes and a mac-chain regime (4% of cases with MAC "
            "obfuscation) planting an original MAC equal to the substitute of another in every order; IPv6 addresses in several "
            "notations (same address -> same substitute address); width-mode specs (a reported original must be gone); "
            "oracle = differential: every input line rebuilt with "
            "each planted token replaced by the mapping the cleaner REPORTS must equal the cleaner's output line for line across "
            "all specs; injectivity of IPv4 / host mappings; no phantom originals; facts file (generate_rhsm_facts into a scratch "
            "dir) carries the same pairs")

    def execute(self, case):
        stats = {"faults_fired": {}, "probes": {}}
        d = tempfile.mkdtemp(prefix="w3-", dir=scratch_base())
        try:
            r = run_history(case, facts_dir=d)
            viols = oracle_c09(case, r, stats, d)
        finally:
            shutil.rmtree(d, ignore_errors=True)
        return self.base_result(case, r, viols, stats)


class C10(CleanerCheck):
    flavour = "C10"
    e2e_share = 0.06
    title = "Cleaning is a deterministic, order-preserving function of content and config"
    replicate = 1.0
    hashseed_is_property = True
    quick = dict(runs=250000, wall=100)
    thorough = dict(runs=4000000, wall=1500)
    rule = ("case = as C08, biased to contents where two obfuscators compete for the same text; EVERY case is executed by two "
            "worker interpreters that differ only in PYTHONHASHSEED (16 distinct seeds per batch) and the digests of (outputs, "
            "mappings) are compared; inside each run the order in which redactor / allow-list / obfuscators are applied to each "
            "line must be consistent with one total order; marker mode: output markers are a sub-sequence of input markers and "
            "each output line carries exactly one; an all-blank result is [] (clean_file: the file is removed); concurrent histories "
            "(obfuscation off) must equal the same history run serially; end-to-end share: one collection repeated three times in "
            "one process stores identical content and is compared across hash seeds (filter budgets that run out); the knob "
            "MAX_LINE_LENGTH turned down to 12-80 in 12%; a probe made of the substitutes a history is about to issue is cleaned "
            "by a fresh Cleaner before and after the history and must come out the same")

    def generate(self, st, tier):
        if st.knob.random() < self.e2e_share:
            from worlds import w2_collect
            return w2_collect.gen_e2e(st, tier, "C10")
        case = gen_case(st, tier, "C10")
        # competition: a keyword that also occurs inside a host label / next to an address
        rp = st.prog
        if case["keywords"] and rp.random() < 0.4:
            # two configured keywords that overlap in the text: one inside the other, planted together on some lines
            k0 = case["keywords"][0]
            inner = k0[:max(2, len(k0) - 2)]
            outer = k0 + rp.choice(["-PROD", "XX"])
            extra = rp.choice([[inner], [outer], [inner, outer]])
            case["keywords"] = rp.sample(case["keywords"] + extra, len(case["keywords"]) + len(extra))
            for spec in case["specs"]:
                for segs in spec["lines"]:
                    for sg in segs:
                        if sg[0] == "kw" and sg[1] == k0 and rp.random() < 0.5:
                            sg[1] = outer if outer in case["keywords"] else k0
        if case["keywords"] and rp.random() < 0.5:
            kw = case["keywords"][0]
            for spec in case["specs"]:
                for segs in spec["lines"]:
                    for s in segs:
                        if s[0] == "host" and rp.random() < 0.5:
                            s[1] = kw.lower() + s[1] if rp.random() < 0.5 else s[1]
            case["keywords"].append(case["fqdn"].split(".")[-1] if "." in case["fqdn"] else "int")
        return case

    def execute(self, case):
        if case.get("w") == "w2e":
            return self.run_e2e(case)
        stats = {"faults_fired": {}, "probes": {}}
        d = None
        if any(sp.get("via") == "file" for sp in case["specs"]):
            d = tempfile.mkdtemp(prefix="w3-", dir=scratch_base())
        probe = probe_before = None
        if case["cfg"]["obfuscate"] and not case.get("concurrent") and not case.get("max_line"):
            # what a FRESH cleaner makes of a fixed content must not depend on what other cleaners of this process did
            # before: the probe is made of the very substitutes the history is about to issue (predicted from the
            # documented scheme), cleaned by a fresh cleaner before the history and by another one after it
            macs = planted(case, ("mac",))
            nip = len(planted(case, ("ip",)))
            nh = len(planted(case, ("host", "fqdn")))
            probe = ["probe %s end" % mac_substitute(m) for m in macs[:4]]
            probe += ["probe 10.230.230.%d end" % k for k in range(1, min(nip, 3) + 1)]
            probe += ["probe host%d.example.com end" % k for k in range(1, min(nh, 3) + 1)]
            if probe:
                probe_before = Cleaner(Cfg(**case["cfg"]), rm_conf_of(case), fqdn=case["fqdn"]).clean_content(list(probe))
        try:
            r = run_history(case, facts_dir=d)
            ref = run_history(case, facts_dir=d, serial=True) if case.get("concurrent") else None
        finally:
            if d:
                shutil.rmtree(d, ignore_errors=True)
        viols = oracle_c10(case, r, stats)
        if probe_before is not None:
            probe_after = Cleaner(Cfg(**case["cfg"]), rm_conf_of(case), fqdn=case["fqdn"]).clean_content(list(probe))
            stats["probes"]["fresh_cleaner_probed_before_and_after"] = 1
            if probe_after != probe_before:
                bad = [(a, b) for a, b in zip(probe_before, probe_after) if a != b][:1]
                viols.append(V("C10.deterministic", "fresh-cleaner-depends-on-earlier-cleaners",
                               "a fresh Cleaner (same configuration) cleaned the same lines before and after another cleaner of this "
                               "process had worked: %r" % (bad or [(probe_before, probe_after)],)))
        if ref is not None and (ref.outputs, ref.raised) != (r.outputs, r.raised):
            bad = [(si, a, b) for si, (a, b) in enumerate(zip(ref.outputs, r.outputs)) if a != b][:1]
            viols.append(V("C10.deterministic", "concurrent-output-differs-from-serial",
                           "the same specs cleaned by concurrent callers of one Cleaner (obfuscation off) and one after the other: "
                           "spec %s serial %r, concurrent %r" % (bad[0] if bad else ("?", ref.raised, r.raised))))
        res = self.base_result(case, r, viols, stats)
        res["sig"] = digest([r.outputs, r.final, r.raised])
        res["digest"] = res["sig"]
        return res


def shrink(case):
    def cp():
        return json.loads(json.dumps(case))
    n = len(case["specs"])
    for k in reversed(range(n)):
        if n > 1:
            c = cp()
            del c["specs"][k]
            yield c
    for si, spec in enumerate(case["specs"]):
        for li in reversed(range(len(spec["lines"]))):
            c = cp()
            del c["specs"][si]["lines"][li]
            yield c
    for si, spec in enumerate(case["specs"]):
        for li, segs in enumerate(spec["lines"]):
            # drop a token together with the delimiter in front of it
            for j in reversed(range(len(segs))):
                if segs[j][0] in ("d",):
                    continue
                c = cp()
                s = c["specs"][si]["lines"][li]
                del s[j]
                if j > 0 and s and j - 1 < len(s) and s[j - 1][0] == "d":
                    del s[j - 1]
                yield c
        for key, simple in (("no_obfuscate", []), ("no_redact", False), ("allowlist", None), ("width", False), ("via", "content")):
            if spec.get(key, simple) != simple:
                c = cp()
                c["specs"][si][key] = simple
                yield c
    if case.get("max_line"):
        c = cp()
        c.pop("max_line")
        yield c
    if case["keywords"]:
        for k in range(len(case["keywords"])):
            c = cp()
            del c["keywords"][k]
            yield c
    p = case["patterns"]
    key = "regex" if "regex" in p else "plain"
    for k in range(len(p[key])):
        c = cp()
        del c["patterns"][key][k]
        yield c
    for k in ("obfuscate_ipv6", "obfuscate_mac", "obfuscate_hostname"):
        if case["cfg"][k]:
            c = cp()
            c["cfg"][k] = False
            yield c


def shrink_e2e(case):
    def cp():
        return json.loads(json.dumps(case))
    n = len(case["specs"])
    for k in reversed(range(n)):
        if n > 1:
            c = cp()
            del c["specs"][k]
            yield c
    for si, spec in enumerate(case["specs"]):
        for li in reversed(range(len(spec["lines"]))):
            c = cp()
            del c["specs"][si]["lines"][li]
            yield c
        for li, segs in enumerate(spec["lines"]):
            for j in reversed(range(len(segs))):
                if segs[j][0] == "d":
                    continue
                c = cp()
                sg = c["specs"][si]["lines"][li]
                del sg[j]
                if j > 0 and sg and j - 1 < len(sg) and sg[j - 1][0] == "d":
                    del sg[j - 1]
                yield c
        if spec["factory"] != "simple_file":
            c = cp()
            c["specs"][si]["factory"] = "simple_file"
            yield c
        for key, simple in (("no_obfuscate", []), ("no_redact", False)):
            if spec[key] != simple:
                c = cp()
                c["specs"][si][key] = simple
                yield c
        if len(spec["filters"]) > 1:
            for k in range(len(spec["filters"])):
                c = cp()
                del c["specs"][si]["filters"][k]
                yield c
    for k in range(len(case["keywords"])):
        c = cp()
        del c["keywords"][k]
        yield c


def get_check(prop):
    return {"C08": C08, "C09": C09, "C10": C10}[prop](prop)
