"""World W1 -- the dependency-graph engine under a simulated scheduler, clock, timer and fault plan.

Serves C01 (at most once / after dependencies / seeds kept), C02 (fires iff requirements met,
positional binding), C03 (failure isolation and attribution) and C04 (schedule independence).

A *case* is an explicit JSON program: nodes in index (= a topological) order with type, edges,
outcome (fault plan), seeded hash (the engine's own tie-break becomes a function of the seed), a set
of pre-seeded values, targets, observers, knobs and a driver (serial, forced linear extension,
incremental, run_all, run_all on a SimPool with a seeded schedule).  ``execute`` builds the program
with the *real* decorators, runs the *real* driver and compares the recorded event log and the final
broker with a small reference model (``model``) that is independent of ``dr``.
"""
import logging
import sys
import types

from simkit import bootstrap, HarnessError

bootstrap()

from simkit import registry                       # noqa: E402
from simkit.runner import Check                   # noqa: E402
from simkit.seeds import digest                   # noqa: E402
from simkit.simclock import SimClock, SimSignal   # noqa: E402
from simkit.simpool import SimPool, SimDeadlock   # noqa: E402

import random                                     # noqa: E402

from insights.core import dr, plugins, spec_factory          # noqa: E402
from insights.core.context import HostContext, SerializedArchiveContext   # noqa: E402
from insights.core.exceptions import (SkipComponent, ContentException, CalledProcessError,   # noqa: E402
                                      TimeoutException, ValidationException, BlacklistedSpec)
from insights import settings                                 # noqa: E402
from insights.core.plugins import Response                    # noqa: E402
import insights                                               # noqa: E402

MODNAME = "vgen"
_mod = types.ModuleType(MODNAME)
sys.modules[MODNAME] = _mod
_mod2 = types.ModuleType("vgen2")
sys.modules["vgen2"] = _mod2

TRACED_FILES = (dr.__file__, plugins.__file__, spec_factory.__file__)


class plainct(dr.ComponentType):
    """A bare ComponentType subclass (what a third-party component type looks like)."""
    pass


TYPES = {
    "plain": plainct,
    "component": plugins.component,
    "datasource": plugins.datasource,
    "parser": plugins.parser,
    "combiner": plugins.combiner,
    "rule": plugins.rule,
    "condition": plugins.condition,
    "incident": plugins.incident,
}
PLUGIN_TYPES = ("component", "combiner", "rule", "condition", "incident")


class Boom(Exception):
    pass


class BadStr(Exception):
    def __str__(self):
        raise RuntimeError("str() of this exception fails")


class Unhashable(Exception):
    """What ``@dataclass class E(Exception)`` gives: __eq__ without __hash__."""
    def __eq__(self, other):
        return self is other
    __hash__ = None


EXC_KINDS = {"skip", "ce", "cpe", "tmo", "boom", "verr", "kerr", "badstr", "unhash", "blk"}


def make_exc(kind, tag):
    if kind == "skip":
        return SkipComponent(tag)
    if kind == "ce":
        return ContentException(tag)
    if kind == "cpe":
        return CalledProcessError(1, tag, "out")
    if kind == "tmo":
        return TimeoutException(tag)
    if kind == "boom":
        return Boom(tag)
    if kind == "blk":
        return BlacklistedSpec(tag)          # what a provider raises for a deny-listed file / command
    if kind == "verr":
        return ValueError(tag)
    if kind == "kerr":
        return KeyError(tag)
    if kind == "badstr":
        return BadStr(tag)
    if kind == "unhash":
        return Unhashable(tag)
    raise HarnessError("unknown exception kind %r" % kind)


def kind_of(e):
    if isinstance(e, BlacklistedSpec):
        return "blk"
    if isinstance(e, ValidationException):
        return "valexc"
    if type(e) is Exception:
        return "Exception"
    if isinstance(e, ContentException):
        return "ce"
    if isinstance(e, SkipComponent):
        return "skip"
    if isinstance(e, CalledProcessError):
        return "cpe"
    if isinstance(e, TimeoutException):
        return "tmo"
    if isinstance(e, Boom):
        return "boom"
    if isinstance(e, BadStr):
        return "badstr"
    if isinstance(e, Unhashable):
        return "unhash"
    if isinstance(e, ValueError):
        return "verr"
    if isinstance(e, KeyError):
        return "kerr"
    return type(e).__name__


def tag_of(e):
    if isinstance(e, ValidationException) or type(e) is Exception:
        return ""          # message texts of the framework's own rejections are not part of any property
    if isinstance(e, CalledProcessError):
        return str(e.cmd)
    return str(e.args[0]) if e.args else ""


class G(object):
    """A generated component: a callable *instance* (exactly what RegistryPoint / simple_file are)
    whose hash is drawn from the seed, so set layout -- hence the engine's tie-break order -- is a
    pure function of the case."""
    _verif_generated = True

    def __init__(self, name, h, module=MODNAME, falsy=False):
        self.__name__ = name
        self.__qualname__ = name
        self.__module__ = module
        self.__doc__ = None
        self._h = h
        self._body = None
        self._falsy = falsy

    def __bool__(self):
        # a component is any callable object: one that also is an (empty) container tests False
        return not self._falsy

    __nonzero__ = __bool__

    def __hash__(self):
        return self._h

    def __eq__(self, o):
        return self is o

    def __ne__(self, o):
        return self is not o

    def __repr__(self):
        return self.__name__

    def __call__(self, *a):
        return self._body(*a)


class RegistryPoint(spec_factory.RegistryPoint):
    """Real RegistryPoint (the engine recognises it by its type *name*) with a seeded hash."""
    _verif_generated = True

    def __init__(self, name, h, **kw):
        self._h = h
        self._vname = name
        super(RegistryPoint, self).__init__(**kw)
        self.__name__ = name
        self.__qualname__ = name
        self.__module__ = MODNAME

    def __hash__(self):
        return self._h

    def __eq__(self, o):
        return self is o

    def __ne__(self, o):
        return self is not o


class Obs(object):
    """Broker observer with a seeded hash (observers live in sets)."""
    _verif_generated = True

    def __init__(self, name, h, raises, log, nameless=False):
        self.name = name
        self._h = h
        self.raises = raises
        self.log = log
        if not nameless:
            self.__name__ = name          # a functools.partial or a plain callable object has no __name__

    def __hash__(self):
        return self._h

    def __eq__(self, o):
        return self is o

    def __call__(self, comp, broker):
        if not getattr(comp, "_verif_generated", False):
            return          # (the default group holds the shipped registry points too: not part of the program, not logged)
        self.log.append(("obs", self.name, getattr(comp, "__name__", repr(comp))))
        if self.raises:
            raise Boom("observer " + self.name)


# ------------------------------------------------------------------------------------------------
# canonical values
# ------------------------------------------------------------------------------------------------
def canon(v):
    if isinstance(v, dr.Broker):
        return "BROKER"
    if isinstance(v, plugins._make_skip):
        return ("skipresp", canon_missing(v.missing))
    if isinstance(v, Response):
        items = tuple(sorted((k, repr(x)) for k, x in v.items() if k not in ("type", v.key_name)))
        return ("resp", v["type"], v.get_key(), items)
    if isinstance(v, list):
        return [canon(x) for x in v]
    if isinstance(v, tuple):
        return tuple(canon(x) for x in v)
    if isinstance(v, HostContext):
        return "HOSTCTX"
    return v


def cname(c):
    if c is HostContext:
        return "H"
    return getattr(c, "__name__", repr(c))


def canon_missing(m):
    return ([cname(x) for x in m[0]], [[cname(x) for x in g] for g in m[1]])


def value_of(name, args):
    """The deterministic value a generated body computes from its arguments."""
    return ("v", name, digest(args))



# ------------------------------------------------------------------------------------------------
# rich rule returns (C12): what a rule body constructs / returns, and what the property expects of it
# ------------------------------------------------------------------------------------------------
RESP_CLASSES = {"pass": "make_pass", "fail": "make_fail", "info": "make_info", "fingerprint": "make_fingerprint",
                "response": "make_response"}
RESP_TYPE = {"pass": "pass", "fail": "rule", "info": "info", "fingerprint": "fingerprint", "response": "rule"}
KEY_NAME = {"pass": "pass_key", "fail": "error_key", "info": "info_key", "fingerprint": "fingerprint_key",
            "response": "error_key"}


def rule_kwargs(nd, args, limit):
    """Keyword arguments the generated rule passes to its response constructor (pure function of the case)."""
    rs = nd["rspec"]
    kw = {"d": digest(args)[:8]}
    xn = rs.get("xname") or "x"          # the name of the payload argument is the rule author's choice
    if rs.get("payload"):
        kw[xn] = "p" * rs["payload"]
    if rs["kind"] == "big":
        base = dict(kw)
        base[xn] = ""
        base["type"] = RESP_TYPE[rs["cls"]]
        base[KEY_NAME[rs["cls"]]] = rs["key"]
        kw[xn] = "b" * max(0, limit + rs["delta"] - len(str(base)))
        if rs.get("xname2"):
            # a second, small argument (the length is measured over all of them)
            kw[rs["xname2"]] = "s"
            kw[xn] = kw[xn][:max(0, len(kw[xn]) - (len(str(dict(base, **{rs["xname2"]: "s"}))) - len(str(base))))]
    return kw


def rule_measured_length(nd, kw):
    rs = nd["rspec"]
    full = dict(kw)
    full["type"] = RESP_TYPE[rs["cls"]]
    full[KEY_NAME[rs["cls"]]] = rs["key"]
    return len(str(full))


def rule_return(nd, args, limit):
    """Executed inside the generated rule body: builds the real Response (or misbehaves as planned)."""
    rs = nd["rspec"]
    k = rs["kind"]
    if k in ("typed", "big"):
        cls = getattr(plugins, RESP_CLASSES[rs["cls"]])
        return cls(rs["key"], **rule_kwargs(nd, args, limit))
    if k == "metadata":
        return plugins.make_metadata(**{"m_" + nd["name"]: digest(args)[:8]})
    if k == "metadata_key":
        return plugins.make_metadata_key(rs["key"], digest(args)[:8])
    if k == "none":
        return None
    if k == "nonresponse":
        return {"type": "rule", "error_key": rs["key"]} if rs.get("dictlike") else "not a response"
    cls = getattr(plugins, RESP_CLASSES[rs["cls"]])
    if k == "badkey_none":
        return cls(None, d=1)
    if k == "badkey_empty":
        return cls("", d=1)
    if k == "badkey_int":
        return cls(5, d=1)
    if k == "badkey_bytes":
        return cls(b"KEY", d=1)
    if k == "reserved_type":
        return cls(rs["key"], type="mine")
    if k == "reserved_key":
        return cls(rs["key"], **{KEY_NAME[rs["cls"]]: "other"})
    if k == "metadata_reserved":
        return plugins.make_metadata(type="mine")
    raise HarnessError("unknown rule spec kind %r" % k)


def rule_expect(nd, args, limit):
    """What the property demands for that return: ("resp", canonical value) or ("exc", kind)."""
    rs = nd["rspec"]
    k = rs["kind"]
    if k in ("typed", "big"):
        kw = rule_kwargs(nd, args, limit)
        length = rule_measured_length(nd, kw)
        if length > limit:
            items = (("max_detail_length_error", repr(length)),)
        else:
            items = tuple(sorted((a, repr(b)) for a, b in kw.items()))
        return ("resp", ("resp", RESP_TYPE[rs["cls"]], rs["key"], items))
    if k == "metadata":
        return ("resp", ("resp", "metadata", None, (("m_" + nd["name"], repr(digest(args)[:8])),)))
    if k == "metadata_key":
        return ("resp", ("resp", "metadata_key", rs["key"], (("value", repr(digest(args)[:8])),)))
    if k == "none":
        return ("resp", ("resp", "none", "NONE_KEY", ()))
    if k == "nonresponse":
        return ("exc", "Exception")
    return ("exc", "valexc")

# ------------------------------------------------------------------------------------------------
# generator
# ------------------------------------------------------------------------------------------------
FLAVOURS = {
    # weights: faults = probability a node gets a non-value outcome
    "C01": dict(fault=0.25, seeded=0.15, disabled=0.08, observers=1, pool=0.35, enable_cfg=0.05, rp=0.25,
                hostctx=0.1, graph_drop=0.1, wide=0.004),
    "C02": dict(fault=0.3, seeded=0.08, disabled=0.15, observers=0, pool=0.0, enable_cfg=0.3, rp=0.2,
                hostctx=0.05, graph_drop=0.1),
    "C03": dict(fault=0.45, seeded=0.05, disabled=0.05, observers=2, pool=0.1, enable_cfg=0.0, rp=0.35,
                hostctx=0.3, graph_drop=0.05, deep=0.0004),
    "C12": dict(fault=0.3, seeded=0.05, disabled=0.05, observers=1, pool=0.45, enable_cfg=0.05, rp=0.15,
                hostctx=0.0, graph_drop=0.0),
    "C04": dict(fault=0.25, seeded=0.08, disabled=0.05, observers=1, pool=1.0, enable_cfg=0.0, rp=0.3,
                hostctx=0.25, graph_drop=0.05, wide=0.012),
}


def gen_program(st, flavour, tier):
    rp_ = st.prog
    rf = st.fault
    rk = st.knob
    fl = FLAVOURS[flavour]
    big = tier == "thorough"
    nmax = 16 if big else 12
    n = 1 + int(rp_.random() ** 1.5 * nmax)          # small programs favoured
    nclusters = rp_.choice([1, 1, 2, 2, 3, 4])
    if rk.random() < fl.get("deep", 0.0):
        # a very deep chain: one failing datasource with hundreds of datasources stacked on it (no registry point in
        # between), plus an unrelated component that must not notice.  Depth is a size knob like any other.
        depth = rk.choice([300, 520, 600, 700])
        nodes = []
        for i in range(depth):
            nodes.append({"name": "c%03d" % i, "type": "datasource", "h": rp_.getrandbits(40), "req": [i - 1] if i else [], "groups": [],
                          "opt": [], "enabled": True, "out": "value", "work": 0.0, "multi": False, "elems": 0})
        nodes[rk.choice([0, 0, 1, 5])]["out"] = rf.choice(["boom", "ce", "cpe", "verr"])
        nodes.append({"name": "c%03d" % depth, "type": "component", "h": rp_.getrandbits(40), "req": [], "groups": [], "opt": [],
                      "enabled": True, "out": "value", "work": 0.0})
        if rk.random() < 0.5:
            nodes.append({"name": "c%03d" % (depth + 1), "type": "rp", "h": rp_.getrandbits(40), "req": [], "groups": [], "opt": [],
                          "enabled": True, "out": "value", "work": 0.0, "impls": [depth - 1], "late": 0, "prio": 0})
        return {"w": "w1", "flavour": flavour, "nodes": nodes, "hostctx": False, "sac": False, "seeded": [], "seed_none": [],
                "store_skips": rk.random() < 0.5, "debug_log": False, "observers": [], "targets": None, "graph_drop": [],
                "enable_cfg": None, "deep": depth}
    wide = rk.random() < fl.get("wide", 0.0)
    if wide:
        # many unconnected components: more sub-graphs than any batching constant a pool driver might use
        n = rp_.choice([65, 66, 67, 70, 97, 127, 129, 130, 131, 140])
        nclusters = n
    nodes = []
    cluster_of = []
    hostctx = rk.random() < fl["hostctx"]
    for i in range(n):
        cl = rp_.randrange(nclusters)
        if wide:
            cl = i if rp_.random() < 0.97 else rp_.randrange(max(1, i))
        prev = [j for j in range(i) if cluster_of[j] == cl]
        t = rp_.choice(["plain", "component", "component", "datasource", "datasource", "parser", "parser", "combiner",
                        "rule", "rule", "condition", "incident", "rp" if rp_.random() < fl["rp"] * 3 else "component", "rp" if rp_.random() < fl["rp"] * 3 else "datasource"])
        nd = {"name": "c%02d" % i, "type": t, "h": rp_.getrandbits(40), "req": [], "groups": [], "opt": [],
              "enabled": True, "out": "value", "work": 0.0}
        if t == "rp":
            ds = [j for j in prev if nodes[j]["type"] == "datasource"]
            if not ds:
                t = nd["type"] = "datasource"
            else:
                nd["impls"] = rp_.sample(ds, rp_.randint(1, min(3, len(ds))))       # registration order
                # some implementations are registered late: after dependency graphs were already computed once
                nd["late"] = rp_.randint(0, len(nd["impls"]) - 1) if rp_.random() < 0.35 else 0
        if t == "parser":
            cands = [j for j in prev if nodes[j]["type"] in ("datasource", "rp", "component")]
            if not cands:
                t = nd["type"] = "component"
            else:
                pref = [j for j in cands if nodes[j]["type"] == "rp"] or cands
                first = rp_.choice(pref if rp_.random() < 0.6 else cands)
                rest = [j for j in prev if j != first]
                nd["req"] = [first] + rp_.sample(rest, min(len(rest), rp_.choice([0, 0, 0, 1, 2])))
                nd["coe"] = rp_.random() < 0.7
                nd["eouts"] = ["value"] * 4
        if t not in ("parser", "rp"):
            k = rp_.choice([0, 1, 1, 2, 2, 3])
            nd["req"] = rp_.sample(prev, min(len(prev), k))
            if prev:
                for _ in range(rp_.choice([0, 0, 1, 1, 2])):
                    nd["groups"].append(rp_.sample(prev, rp_.randint(1, min(3, len(prev)))))
                # position of each at-least-one group among the required dependencies, as written in the decorator
                nd["gpos"] = sorted(rp_.randint(0, len(nd["req"])) for _ in nd["groups"])
                nd["opt"] = rp_.sample(prev, min(len(prev), rp_.choice([0, 0, 1, 2])))
        if t == "datasource":
            nd["multi"] = rp_.random() < 0.4
            nd["elems"] = rp_.choice([0, 1, 2, 2, 3]) if nd["multi"] else 0
            if hostctx:
                nd["timeout"] = rp_.choice([None, 5, 30, 120])
        if t == "rule":
            nd["resp"] = rp_.choice(["pass", "fail", "info", "none"])
        if t == "rp":
            nd["prio"] = rp_.choice([0, 0, 0, 1, 5, -1])
        if t not in ("parser", "rp"):
            # less common declaration forms
            r_ = rp_.random()
            if r_ < 0.08 and (nd["req"] or nd["groups"]):
                nd["decl_form"] = "requires_kw"             # deprecated: TYPE(requires=[...])
            if len(nd["opt"]) == 1 and rp_.random() < 0.3 and not nodes[nd["opt"][0]].get("falsy"):
                # optional=component instead of optional=[component]; not with a component object that tests False: the
                # decorator itself raises TypeError for it (`if optional and not isinstance(optional, list)`), the program
                # cannot be declared -- noted in DESIGN 8.8, no listed property speaks about it
                nd["opt_single"] = True
            if nd["req"] and rp_.random() < 0.06:
                nd["req"] = nd["req"] + [nd["req"][0]]      # the same dependency listed twice
            if t == "plain" and prev and rp_.random() < 0.3:
                nd["implicit"] = rp_.sample(prev, 1)         # class-level requires of the component type
            if t == "plain" and prev and rp_.random() < 0.25:
                nd["implicit_opt"] = rp_.sample(prev, 1)     # class-level optional of the component type
            if flavour == "C02" and t in ("plain", "rule") and nd["groups"] and not nd.get("decl_form"):
                # dr.add_dependency(component, X) after the declaration (what spec sets do to registry points, and any
                # caller may do to any component): X joins the FIRST at-least-one group and is bound as one more trailing
                # argument -- also when X is already declared in another role.  (Own PRNG: older cases stay what they were.)
                from simkit.seeds import h64 as _h64
                ra = random.Random(_h64(st.seed, "add_late", i))
                if ra.random() < 0.12:
                    other = [j for j in (nd["req"] + nd["opt"] + [x for g in nd["groups"][1:] for x in g]) if j not in nd["groups"][0]]
                    free = [j for j in prev if j not in nd["groups"][0]]
                    pick = other if (other and ra.random() < 0.6) else free
                    if pick:
                        nd["add_late"] = [ra.choice(pick)]
        # ---- fault plan
        if t != "rp" and rf.random() < fl["fault"]:
            kinds = ["skip", "skip", "boom", "verr", "kerr", "none", "ce", "cpe", "cpe", "zero", "emptystr"]
            if t == "datasource":
                kinds += ["tmo", "slow", "slow", "blk"] if hostctx else ["tmo", "blk"]
            if flavour == "C03" and rf.random() < 0.04:
                kinds = ["badstr", "unhash"]
            nd["out"] = rf.choice(kinds)
            if t == "plain" and nd["out"] == "ce":
                nd["out"] = "skip"     # for the bare engine a ContentException *is* the skip signal: ambiguous, not generated
            if nd["out"] == "slow":
                nd["work"] = float((nd.get("timeout") or 120) + rf.choice([0.5, 1, 10, 100]))
        elif t == "datasource" and hostctx and rf.random() < 0.3:
            nd["out"] = "slow"
            nd["work"] = max(0.1, float((nd.get("timeout") or 120) - rf.choice([0.5, 1, 3])))
        if hostctx and t not in ("rp", "datasource") and rf.random() < 0.15:
            nd["work"] = rf.choice([0.5, 4.0, 20.0, 100.0, 500.0])      # time passes in other components too
        if t == "parser":
            for e in range(4):
                if rf.random() < fl["fault"]:
                    nd["eouts"][e] = rf.choice(["skip", "skip", "ce", "cpe", "boom", "verr", "none", "zero"])
        if t != "rp" and rk.random() < 0.04:
            nd["falsy"] = True                                # the component object itself tests False (bool(c) is False)
        if t != "rp" and rk.random() < fl["disabled"]:
            nd["enabled"] = False
            if rk.random() < 0.4:
                nd["disable_by_name"] = True                 # dr.set_enabled("module.name", False)
        nodes.append(nd)
        cluster_of.append(cl)
    sac = rk.random() < (0.12 if flavour in ("C01", "C02", "C04") else 0.05)
    case = {"w": "w1", "flavour": flavour, "nodes": nodes, "hostctx": hostctx, "sac": sac,
            "seeded": sorted(i for i in range(n) if rk.random() < fl["seeded"]),
            "store_skips": rk.random() < 0.5,
            "debug_log": rk.random() < 0.2,
            "observers": [], "targets": None, "graph_drop": [], "enable_cfg": None}
    # a supplied value may be anything, None included (the engine goes by the presence of the key)
    case["seed_none"] = sorted(i for i in case["seeded"] if rk.random() < 0.25)
    if sac:
        # the hydrated-archive path of dr.run(): the direct dependencies of pre-seeded components are dropped from the graph.
        # More pre-seeded values make it bite; a pre-seeded component must not be a direct dependency of another one (dr.run
        # would look up a key it has just dropped -- outside the listed properties)
        seeded = set(case["seeded"]) | set(i for i in range(n) if rk.random() < 0.25)
        for i in sorted(seeded):
            if any(j in seeded for j in dep_set(nodes[i])):
                seeded.discard(i)
        case["seeded"] = sorted(seeded)
        case["seed_none"] = [i for i in case["seed_none"] if i in seeded]
    if rk.random() < 0.3 and n > 1:
        case["targets"] = sorted(rp_.sample(range(n), rp_.randint(1, n)))
    if rk.random() < fl["graph_drop"] and n > 2:
        case["graph_drop"] = sorted(rp_.sample(range(n), 1))
    if (flavour in ("C04", "C01") and not sac and any(nd.get("late") for nd in nodes) and rk.random() < 0.7):
        # a long-lived process: everything registered so far was evaluated once through the default group's own table,
        # THEN the late implementations are plugged into their registry points, then comes the evaluation under test
        case["pre_eval_group"] = True
        case["targets"] = None
        case["graph_drop"] = []
    if flavour in ("C04", "C01") and n > 2:
        # a long-lived process: before the evaluation under test somebody computed and ordered the sub-graphs of PART of
        # the program (what insights-info, the shell's model listing and query.dry_run do with dr.run_order); nothing is
        # executed by that, and nothing may be different afterwards.  (Own PRNG: older cases stay what they were.)
        from simkit.seeds import h64
        rpre = random.Random(h64(st.seed, "prelude"))
        if rpre.random() < 0.2:
            case["prelude"] = sorted(rpre.sample(range(n), rpre.randint(1, n - 1)))
        if flavour == "C01" and rpre.random() < 0.08:
            # two caller threads of one process ask for dependency graphs with overlapping closures at the same time
            # (SimPool decides the interleaving inside dr.py); each must get the graph a lone caller gets
            case["conc_graph"] = {"targets": [rpre.randrange(n), rpre.randrange(n)], "seed": rpre.getrandbits(32),
                                  "p": rpre.choice([0.1, 0.3, 0.5]), "opcode": rpre.random() < 0.4}
    for o in range(rk.choice([0, 1, 2, 3]) if fl["observers"] else 0):
        case["observers"].append({"name": "o%d" % o, "h": rk.getrandbits(40),
                                  "on": rk.choice(["all", "all", "rule", "datasource", "parser", "plugin"]),
                                  "raises": fl["observers"] > 1 and rf.random() < 0.4,
                                  "glob": rk.random() < 0.3, "nameless": rk.random() < 0.3})
    if flavour == "C03":
        # a deny-listed spec usually has several implementations that hit the same deny entry: when one implementation of
        # a registry point is refused, a sibling often is too (the process-wide list of refused spec names then already
        # holds the name when the second one is recorded)
        for nd in nodes:
            if nd["type"] == "rp" and len(nd.get("impls", [])) >= 2 and any(nodes[j]["out"] == "blk" for j in nd["impls"]):
                for j in nd["impls"]:
                    if nodes[j]["out"] != "blk" and rf.random() < 0.6:
                        nodes[j]["out"] = "blk"
                        nodes[j]["work"] = 0.0
    if flavour == "C03" and rf.random() < 0.08:
        # ONE exception object surfacing in several components (a lazily loading provider keeps the exception of its
        # failed load and re-raises the same object to every consumer): each of them raised it, each is accountable
        cands = [i for i, nd in enumerate(nodes) if nd["type"] in PLUGIN_TYPES]
        if len(cands) >= 2:
            oc = rf.choice(["ce", "cpe"])
            for i in rf.sample(cands, rf.randint(2, min(3, len(cands)))):
                nodes[i]["out"] = oc
                nodes[i]["xshare"] = 0
    if flavour == "C02" and rk.random() < 0.15 and not case.get("sac") and not case["graph_drop"]:
        # (not when the evaluated graph is pruned -- a dropped key or the hydrated-archive pruning removes the ordering
        # constraints that run THROUGH the pruned component, and "down-stream" would no longer mean "later")
        # a component that flips the enabled switch of a component DOWN-stream of itself while the evaluation is under
        # way (dr.set_enabled from a component body, as a configuration-loading component or an observer may do): the
        # switch is looked at right before a component is processed.  Down-stream only: every valid order has the
        # toggler first, so the outcome is a function of the program.
        for _ in range(rk.choice([1, 1, 2])):
            taken = set(j for nd in nodes for j, _ in nd.get("toggles") or [])     # one toggler per switch: two would race
            cands = [(i, j) for j in range(n) for i in sorted(closure(nodes, [j]) - set([j]))
                     if nodes[i]["type"] != "rp" and nodes[j]["type"] != "rp" and j not in taken]
            if cands:
                i, j = cands[rk.randrange(len(cands))]
                nodes[i].setdefault("toggles", []).append([j, (not nodes[j]["enabled"]) if rk.random() < 0.8 else nodes[j]["enabled"]])
    if rk.random() < fl["enable_cfg"]:
        cfgs = []
        for _ in range(rk.randint(0, 3)):
            i = rk.randrange(n)
            nm = nodes[i].get("module", MODNAME) + "." + nodes[i]["name"]
            if rk.random() < 0.3:
                nm = nm[:-1]           # a genuine prefix: matches c0x
            cfgs.append({"name": nm, "enabled": rk.random() < 0.5})
        case["enable_cfg"] = {"default_component_enabled": rk.random() < 0.7, "configs": cfgs}
    return case


def toggles_sound(case):
    """A switch may only be flipped by a component every valid order puts before the switch's owner: the owner is
    down-stream of the toggler in the graph that is evaluated (no pruned keys in between), one toggler per switch."""
    nodes = case["nodes"]
    seen = set()
    for i, nd in enumerate(nodes):
        for j, _st in nd.get("toggles") or []:
            if case.get("sac") or case.get("graph_drop"):
                return False
            if j in seen or j >= len(nodes) or j == i or i not in closure(nodes, [j]):
                return False
            seen.add(j)
    return True


def rerun_candidates(case):
    """Components that may be switched on between two evaluations of one broker.  Only fault-free programs (what a
    second evaluation does with a component that failed in the first is nobody's stated property) without mid-run
    switch flips; no rule may sit down-stream (a rule answers unmet requirements with a skip *response*, a value)."""
    nodes = case["nodes"]
    if case.get("sac") or case.get("graph_drop"):
        return []
    for nd in nodes:
        if nd["out"] not in ("value", "none", "zero", "emptystr") or nd.get("toggles"):
            return []
        if nd["type"] == "parser" and any(e != "value" for e in nd.get("eouts", [])):
            return []
        if nd["type"] == "rule" and nd["out"] != "value":
            return []
    en = enabled_map(case)
    ing = graph_nodes(case)
    out = []
    for i, nd in enumerate(nodes):
        if nd["type"] == "rp" or not en[i] or i in case["seeded"] or i not in ing:
            continue
        down = [j for j in range(len(nodes)) if j != i and i in closure(nodes, [j])]
        if down and not any(nodes[j]["type"] == "rule" for j in down):
            out.append(i)
    return out


def fresh_brokers_ok(case):
    """Drivers that let the engine create one fresh broker per sub-graph cannot carry pre-seeded values,
    a HostContext, store_skips or broker-local observers."""
    return not (case["seeded"] or case["store_skips"] or case["hostctx"] or case.get("sac") or
                any(not o["glob"] for o in case["observers"]))


def gen_driver(st, case, flavour, kinds=None):
    rs = st.sched
    fl = FLAVOURS[flavour]
    if kinds is None:
        if rs.random() < fl["pool"]:
            kinds = ["pool"]
        else:
            kinds = ["run", "run", "order", "order", "incr", "all", "incr_n", "all_n"]
    k = rs.choice(kinds)
    if case.get("deep"):
        k = rs.choice(["run", "incr", "all"])          # (no forced orders or pools for a 700-node chain: the depth is the point)
    if k.endswith("_n") and not fresh_brokers_ok(case):
        k = k[:-2]
    d = {"kind": k}
    if flavour == "C02" and rs.random() < 0.3:
        late = rerun_candidates(case)
        if late:
            # the same broker evaluated twice (the on-demand style of the shell and of insights-cat / insights-inspect):
            # first with a few components switched off, then again with them switched on
            return {"kind": "rerun", "late_enable": sorted(rs.sample(late, min(len(late), rs.choice([1, 1, 2]))))}
    if k != "order" and not case.get("graph_drop") and rs.random() < 0.25:
        d["entry"] = rs.choice(["list", "single", "group"])        # dr.run([components]) / dr.run(component) / the group's table
    if case.get("pre_eval_group") and k == "run" and rs.random() < 0.7:
        d["entry"] = "group_object"
    if not k.endswith("_n") and rs.random() < 0.1:
        d["seed_broker"] = True                           # dr.Broker(seed_broker): a broker copied from a prepared one
    if k == "order":
        d["order_seed"] = rs.getrandbits(32)
    if k == "pool":
        d["workers"] = rs.choice([1, 2, 2, 3, 4, 0])
        if rs.random() < 0.7:
            d["sched"] = {"kind": "walk", "p": rs.choice([0.02, 0.05, 0.1, 0.2, 0.3]), "seed": rs.getrandbits(32)}
        else:
            d["sched"] = {"kind": "pct", "depth": rs.choice([1, 2, 3]), "horizon": rs.choice([50, 200, 800]),
                          "seed": rs.getrandbits(32)}
        if rs.random() < 0.4:
            # pre-emption between two bytecodes of one source line (e.g. after iter(d) was evaluated, before it is used)
            d["sched"]["opcode"] = True
            if d["sched"]["kind"] == "walk":
                d["sched"]["p"] = rs.choice([0.01, 0.03, 0.08])
            else:
                d["sched"]["horizon"] = d["sched"]["horizon"] * 6
    return d


# ------------------------------------------------------------------------------------------------
# static helpers on the program
# ------------------------------------------------------------------------------------------------
def declaration(nd):
    """The decorator's positional arguments as written: required indices and groups (lists) interleaved."""
    req = nd["req"]
    groups = nd["groups"]
    gpos = nd.get("gpos") or [len(req)] * len(groups)
    out = list(nd.get("implicit") or [])           # class-level requirements of the component type come first
    for k in range(len(req) + 1):
        for g, p in zip(groups, gpos):
            if min(p, len(req)) == k:
                out.append(list(g))
        if k < len(req):
            out.append(req[k])
    return out


def deps_of(nd):
    """Declared dependencies in binding order: required ones and at-least-one members as written, then optional."""
    if nd["type"] == "rp":
        return list(nd.get("impls", []))
    out = []
    for d in declaration(nd):
        if isinstance(d, list):
            out.extend(d)
        else:
            out.append(d)
    out.extend(nd.get("implicit_opt") or [])       # self.optional = class-level optional + the decorator's optional=
    out.extend(nd["opt"])
    out.extend(nd.get("add_late") or [])           # dr.add_dependency() appends to self.deps
    return out


def dep_set(nd):
    s = set(deps_of(nd))
    return s


def closure(nodes, targets):
    seen = set()
    stack = list(targets)
    while stack:
        i = stack.pop()
        if i in seen:
            continue
        seen.add(i)
        stack.extend(dep_set(nodes[i]))
    return seen


def graph_nodes(case):
    n = len(case["nodes"])
    tg = case["targets"] if case["targets"] is not None else list(range(n))
    g = closure(case["nodes"], tg)
    for i in case.get("graph_drop") or []:
        if len(g) > 1:
            g.discard(i)
    if case.get("sac") and case.get("driver", {}).get("kind") != "order":
        # dr.run() with a SerializedArchiveContext in the broker: what a pre-seeded component was built from is loaded,
        # not collected again -- its direct dependencies leave the evaluation
        for i in sorted(g):
            if i in case["seeded"]:
                for d in dep_set(case["nodes"][i]):
                    g.discard(d)
    return g


def dependents_map(nodes):
    m = dict((i, set()) for i in range(len(nodes)))
    for i, nd in enumerate(nodes):
        for d in dep_set(nd):
            m[d].add(i)
    return m


def registry_points_of(nodes, i, dmap):
    """Mirror of the *documented* attribution: for a datasource the registry points built on it
    (down-stream), for anything else the registry points it is built on (up-stream); the walk stops
    at the first registry point on each path."""
    if nodes[i]["type"] == "rp":
        return set([i])
    out = set()
    down = nodes[i]["type"] == "datasource"
    seen = set()
    stack = [i]
    while stack:
        c = stack.pop()
        nxt = dmap[c] if down else dep_set(nodes[c])
        for d in nxt:
            if nodes[d]["type"] == "rp":
                out.add(d)
            elif d not in seen:
                seen.add(d)
                stack.append(d)
    return out


def enabled_map(case):
    nodes = case["nodes"]
    en = dict((i, nd["enabled"]) for i, nd in enumerate(nodes))
    cfg = case.get("enable_cfg")
    if cfg:
        de = cfg.get("default_component_enabled", True)
        # apply_default_enabled(): every entry already present in ENABLED is overwritten, the rest default
        en = dict((i, de) for i in en)
        names = sorted((nd.get("module", MODNAME) + "." + nd["name"], i) for i, nd in enumerate(nodes))
        for c in cfg.get("configs", []):
            for nm, i in names:
                if nm.startswith(c["name"]):
                    en[i] = c.get("enabled", de)
                if nm == c["name"]:
                    break
    return en


# ------------------------------------------------------------------------------------------------
# reference model
# ------------------------------------------------------------------------------------------------
ABSENT = "<absent>"


def timeout_tag(nd):
    return "Datasource spec %s.%s timed out after %s seconds!" % (MODNAME, nd["name"], nd.get("timeout") or 120)


def model(case, fixed_f1=True, pool_thread=False, prior=None, disabled=()):
    """Fold over the program in index order.  Returns dict(val, calls, exc, missing).
    ``prior``: the result of an earlier evaluation on the SAME broker (what has a value is not evaluated again);
    ``disabled``: components switched off for this evaluation on top of the program's own switches."""
    nodes = case["nodes"]
    ss = case["store_skips"]
    ing = graph_nodes(case)
    en = enabled_map(case)
    for i in disabled:
        en[i] = False
    dmap = dependents_map(nodes)
    seeded = set(case["seeded"])
    hostctx = case["hostctx"]
    val = dict(prior["val"]) if prior else {}
    had = set(val)
    calls = {}
    exc = list(prior["exc"]) if prior else []
    missing = dict(prior["missing"]) if prior else {}

    def rec(target, kind, tag):
        exc.append((nodes[target]["name"], kind, tag))

    def present(j):
        return j in val

    for i, nd in enumerate(nodes):
        name = nd["name"]
        t = nd["type"]
        if i in seeded:
            val[i] = None if i in (case.get("seed_none") or ()) else ("seed", name)
            continue
        if i in had:
            continue
        if i not in ing or not en[i]:
            continue
        req = list(nd.get("implicit") or []) + list(nd["req"])
        groups = [list(g) for g in nd["groups"]]
        if nd.get("add_late") and groups:
            groups[0] = groups[0] + list(nd["add_late"])      # ... and to the first at-least-one group
        if t == "rp":
            groups = [list(nd.get("impls", []))]
        mreq = [nodes[j]["name"] for j in req if not present(j)]
        if nd.get("needs_host") and not hostctx:
            mreq = ["H"] + mreq
        mgrp = [[nodes[j]["name"] for j in g] for g in groups if not any(present(j) for j in g)]
        if mreq or mgrp:
            if t == "rule":
                val[i] = ("skipresp", (mreq, mgrp))
            else:
                missing[i] = (mreq, mgrp)
            continue
        rps = registry_points_of(nodes, i, dmap)

        def generic(kind, tag):
            rec(i, kind, tag)
            for r in sorted(rps):
                if r != i:
                    rec(r, kind, tag)

        if t == "rp":
            last = [j for j in nd["impls"] if present(j)][-1]
            val[i] = val[last]
            continue

        if t == "parser":
            dv = val[req[0]]
            if isinstance(dv, list):
                res = []
                broke = False
                calls[i] = []
                for k, e in enumerate(dv):
                    calls[i].append((e,))
                    oc = nd["eouts"][k % 4]
                    tag = "%s#%d" % (name, k)
                    if oc == "value":
                        res.append(value_of(name, (e,)))
                    elif oc == "zero":
                        res.append(0)                    # falsy but not None: kept
                    elif oc == "none":
                        pass
                    elif oc == "skip":
                        if ss:
                            rec(i, "skip", tag)          # the property: against the skipping parser itself
                    else:
                        rec(i, oc, tag)
                        if not nd["coe"]:
                            broke = True
                            break
                if broke or not res:
                    if ss:
                        rec(i, "skip", "")
                else:
                    val[i] = res
                if not calls[i]:
                    del calls[i]
                else:
                    for j, state in nd.get("toggles") or []:
                        en[j] = state
                continue
            args = (dv,)
        elif t == "datasource":
            args = ("BROKER",)
        else:
            args = tuple(val.get(j) for j in deps_of(nd))
        calls[i] = [args]
        for j, state in nd.get("toggles") or []:
            en[j] = state                      # the body ran: the switch of a down-stream component is flipped
        oc = nd["out"]
        tag = name
        if nd.get("xshare") is not None and oc in ("ce", "cpe"):
            tag = "shared%d" % nd["xshare"]
        if oc == "slow":
            tmo = nd.get("timeout") or 120
            if t == "datasource" and hostctx and not pool_thread and nd["work"] > tmo:
                oc = "alarm"
            else:
                oc = "value"
        if oc in ("zero", "emptystr"):
            fv = 0 if oc == "zero" else ""
            if t == "rule":
                generic("Exception", "")          # not a Response: rejected
            else:
                val[i] = fv
        elif oc == "value":
            if t == "rule" and nd.get("rspec"):
                exp = rule_expect(nd, args, case.get("max_detail_length") or 65535)
                if exp[0] == "resp":
                    val[i] = exp[1]
                else:
                    generic(exp[1], "")
            elif t == "rule":
                r = nd.get("resp", "pass")
                if r == "none":
                    val[i] = ("resp", "none", "NONE_KEY", ())
                else:
                    rtype = {"pass": "pass", "fail": "rule", "info": "info"}[r]
                    val[i] = ("resp", rtype, "K_" + name.upper(), (("d", repr(digest(args))),))
            elif t == "datasource" and nd.get("multi"):
                val[i] = [("elem", name, k) for k in range(nd["elems"])]
            else:
                val[i] = value_of(name, args)
        elif oc == "none":
            val[i] = ("resp", "none", "NONE_KEY", ()) if t == "rule" else None
        elif oc == "skip":
            if ss:
                rec(i, "skip", tag)
        elif oc == "alarm":
            for r in sorted(rps) or [i]:
                rec(r, "tmo", timeout_tag(nd))
            if ss:
                rec(i, "skip", "")
        elif oc == "blk":
            rec(i, "blk", tag)            # against the raising component itself, not against its specs
        elif oc in ("ce", "cpe", "tmo"):
            if t == "plain":
                if oc == "ce":                      # a ContentException *is* the skip signal for the bare engine
                    if ss:
                        rec(i, "ce", tag)
                else:
                    generic(oc, tag)
            elif t == "datasource":
                # against the specs built on it; a datasource no spec is built on is accountable itself
                for r in sorted(rps) or [i]:
                    rec(r, oc, tag)
                if ss:
                    rec(i, "skip", "")
            elif oc == "tmo":
                generic(oc, tag)
            else:                                    # parser (single input) and the other plugin types
                rec(i, oc, tag)
                if ss:
                    rec(i, "skip", "")
        else:
            generic(oc, tag)
    if prior:
        calls = dict((i, list(prior["calls"].get(i, [])) + list(calls.get(i, []))) for i in set(prior["calls"]) | set(calls))
    return {"val": val, "calls": calls, "exc": sorted(exc), "missing": missing, "en": en}


# ------------------------------------------------------------------------------------------------
# building the real program
# ------------------------------------------------------------------------------------------------
class World(object):
    def __init__(self, case):
        self.case = case
        self.ev = []
        self.clock = SimClock()
        self.objs = []
        self.pool = None
        self.faults_fired = {}
        self.shared_exc = {}

    def fired(self, kind):
        self.faults_fired[kind] = self.faults_fired.get(kind, 0) + 1

    def make_body(self, i, nd):
        name = nd["name"]
        t = nd["type"]
        ev = self.ev
        clock = self.clock
        world = self

        def finish(oc, tag, args):
            if oc == "value" or oc == "slow":
                if t == "rule" and nd.get("rspec"):
                    if nd["rspec"]["kind"] not in ("typed", "metadata", "metadata_key", "none"):
                        world.fired("rule_" + nd["rspec"]["kind"])
                    return rule_return(nd, args, settings.defaults["max_detail_length"])
                if t == "rule":
                    r = nd.get("resp", "pass")
                    if r == "none":
                        return None
                    cls = {"pass": plugins.make_pass, "fail": plugins.make_fail, "info": plugins.make_info}[r]
                    return cls("K_" + name.upper(), d=digest(args))
                if t == "datasource" and nd.get("multi"):
                    return [("elem", name, k) for k in range(nd["elems"])]
                return value_of(name, args)
            if oc == "none":
                return None
            if oc == "zero":
                return 0
            if oc == "emptystr":
                return ""
            world.fired(oc)
            if nd.get("xshare") is not None and oc in ("ce", "cpe"):
                world.fired("same_exception_object_raised_again")
                key = (nd["xshare"], oc)
                if key not in world.shared_exc:
                    world.shared_exc[key] = make_exc(oc, "shared%d" % nd["xshare"])
                raise world.shared_exc[key]
            raise make_exc(oc, tag)

        def toggle():
            for j, state in nd.get("toggles") or []:
                dr.set_enabled(world.objs[j], state)
                world.fired("enabled_switch_flipped_mid_run")

        if t == "parser":
            def body(v):
                cv = canon(v)
                ev.append(("call", name, (cv,)))
                toggle()
                if nd.get("work"):
                    clock.work(nd["work"])
                if isinstance(v, tuple) and len(v) == 3 and v[0] == "elem":
                    # an element of a multi-output datasource: per-element fault plan
                    k = v[2]
                    return finish(nd["eouts"][k % 4], "%s#%d" % (name, k), (cv,))
                return finish(nd["out"], name, (cv,))
        else:
            def body(*args):
                cargs = tuple(canon(a) for a in args)
                ev.append(("call", name, cargs))
                toggle()
                if nd.get("work"):
                    before = clock.signal.fired if clock.signal else 0
                    try:
                        clock.work(nd["work"])
                    finally:
                        if clock.signal and clock.signal.fired > before:
                            world.fired("alarm")
                return finish(nd["out"], name, cargs)
        return body

    def build(self):
        case = self.case
        nodes = case["nodes"]
        if case.get("max_detail_length"):
            settings.defaults["max_detail_length"] = case["max_detail_length"]
        objs = []
        late = []
        for nd in nodes:
            if nd["type"] == "rp":
                objs.append(None)
            else:
                objs.append(G(nd["name"], nd["h"], nd.get("module", MODNAME), falsy=bool(nd.get("falsy"))))
        for i, nd in enumerate(nodes):
            t = nd["type"]
            if t == "rp":
                rp = RegistryPoint(nd["name"], nd["h"], prio=nd.get("prio", 0))
                objs[i] = rp
                nlate = nd.get("late", 0)
                early = nd["impls"][:len(nd["impls"]) - nlate]
                for j in early:
                    dr.add_dependency(rp, objs[j])
                if nlate:
                    late.append((rp, [objs[j] for j in nd["impls"][len(early):]]))
                continue
            g = objs[i]
            g._body = self.make_body(i, nd)
            decl = declaration(nd)
            nimp = len(nd.get("implicit") or [])
            deps = [[objs[j] for j in d] if isinstance(d, list) else objs[d] for d in decl[nimp:]]
            if nd.get("needs_host"):
                deps = [HostContext] + deps
            kw = {}
            if nd["opt"]:
                kw["optional"] = [objs[j] for j in nd["opt"]]
                if nd.get("opt_single") and len(nd["opt"]) == 1:
                    kw["optional"] = objs[nd["opt"][0]]
            if nd.get("decl_form") == "requires_kw" and deps:
                kw["requires"] = deps
                deps = []
            if t in ("datasource",) or nd["name"]:
                setattr(_mod, nd["name"], g) if nd.get("module", MODNAME) == MODNAME else setattr(_mod2, nd["name"], g)
            if t == "parser":
                plugins.parser(*deps, continue_on_error=nd.get("coe", True))(g)
            elif t == "datasource":
                if nd.get("timeout"):
                    kw["timeout"] = nd["timeout"]
                if nd.get("multi"):
                    kw["multi_output"] = True
                plugins.datasource(*deps, **kw)(g)
            else:
                if t == "rule" and nd.get("rspec"):
                    if nd["rspec"].get("tags") is not None:
                        kw["tags"] = list(nd["rspec"]["tags"])
                    if nd["rspec"].get("links") is not None:
                        kw["links"] = dict(nd["rspec"]["links"])
                    if nd["rspec"].get("content") is not None:
                        kw["content"] = nd["rspec"]["content"]
                ctype = TYPES[t]
                if nimp or nd.get("implicit_opt"):
                    # a component type with implicit (class-level) requirements / optional dependencies, as third-party
                    # types declare them
                    ctype = type("plainct_implicit", (plainct,), {"requires": [objs[j] for j in nd.get("implicit") or []],
                                                                 "optional": [objs[j] for j in nd.get("implicit_opt") or []]})
                ctype(*deps, **kw)(g)
        self.objs = objs
        self.idx = dict((o, i) for i, o in enumerate(objs))
        if late:
            # history: graphs are computed once (as a first evaluation or a tool would), THEN more implementations are
            # plugged into their registry points (a spec-set sub-class defined later), then the real evaluation follows
            for o in objs:
                dr.get_dependency_graph(o)
            if case.get("pre_eval_group"):
                b0 = dr.Broker()
                if case["hostctx"]:
                    b0[HostContext] = HostContext()
                try:
                    dr.run(dr.COMPONENTS[dr.GROUPS.single], broker=b0)
                except HarnessError:
                    raise
                except Exception:
                    pass              # whatever escapes here escapes from the evaluation under test as well
                self.fired("default_group_evaluated_before_late_registrations")
            for rp, more in late:
                for im in more:
                    dr.add_dependency(rp, im)
        for i, nd in enumerate(nodes):
            if nd.get("add_late") and nd["groups"] and nd["type"] != "rp":
                for j in nd["add_late"]:
                    dr.add_dependency(objs[i], objs[j])
                self.fired("add_dependency_on_a_declared_component")
        # enable / disable
        for i, nd in enumerate(nodes):
            if not nd["enabled"]:
                if nd.get("disable_by_name"):
                    dr.set_enabled(dr.get_name(objs[i]), False)        # by fully qualified name, as configuration does
                else:
                    dr.set_enabled(objs[i], False)
        cfg = case.get("enable_cfg")
        if cfg:
            # the property speaks about the components of the program: make sure each has an entry, as any
            # component that was ever looked at by the engine has
            for o in objs:
                dr.is_enabled(o)
            insights.apply_default_enabled(cfg)
            insights.apply_configs(cfg)
        return objs

    def graph(self):
        case = self.case
        objs = self.objs
        tg = case["targets"] if case["targets"] is not None else list(range(len(objs)))
        g = {}
        for i in tg:
            g.update(dr.get_dependency_graph(objs[i]))
        for i in case.get("graph_drop") or []:
            if len(g) > 1:          # an empty graph means "everything registered" to dr.run -- never generate that
                g.pop(objs[i], None)
        return g

    def new_broker(self, observers=True):
        case = self.case
        b = dr.Broker()
        b.store_skips = case["store_skips"]
        if case["hostctx"]:
            b[HostContext] = HostContext()
        if case.get("sac"):
            b[SerializedArchiveContext] = SerializedArchiveContext()
        for i in case["seeded"]:
            b[self.objs[i]] = None if i in (case.get("seed_none") or ()) else ("seed", case["nodes"][i]["name"])
        if observers:
            for o, spec in self.local_observers:
                b.add_observer(o, spec)
        return b

    def make_observers(self):
        self.local_observers = []
        self.all_observers = []
        tmap = {"all": dr.ComponentType, "rule": plugins.rule, "datasource": plugins.datasource,
                "parser": plugins.parser, "plugin": plugins.PluginType}
        # the monitor: one observer on every component, used for the "attempted" events
        mon = Obs("mon", 1, False, self.ev)
        self.monitor = mon
        dr.add_observer(mon, dr.ComponentType)
        for spec in self.case["observers"]:
            o = Obs(spec["name"], spec["h"], spec["raises"], self.ev, nameless=spec.get("nameless", False))
            self.all_observers.append((o, spec))
            if spec["glob"]:
                dr.add_observer(o, tmap[spec["on"]])
            else:
                self.local_observers.append((o, tmap[spec["on"]]))


def linear_extension(objs_graph, rng):
    """A seeded random linear extension (Kahn with random pick) of a {comp: deps} graph."""
    keys = sorted(set(objs_graph) | set(d for v in objs_graph.values() for d in v), key=cname)
    indeg = dict((k, set(d for d in objs_graph.get(k, ()) if d is not k)) for k in keys)
    order = []
    avail = [k for k in keys if not indeg[k]]
    done = set()
    while avail:
        c = avail.pop(rng.randrange(len(avail)))
        order.append(c)
        done.add(c)
        for k in keys:
            if k not in done and k not in avail and c in indeg[k]:
                indeg[k].discard(c)
                if not indeg[k]:
                    avail.append(k)
    if len(order) != len(keys):
        raise HarnessError("generated graph is cyclic")
    return order


class _Sink(object):
    """Log sink: records are formatted (so ``str(exception)`` really runs) and thrown away."""
    def write(self, s):
        pass

    def flush(self):
        pass


class Patches(object):
    """Installs the simulator's seams (module attributes) and removes them again."""

    def __init__(self, world, debug_log):
        self.world = world
        self.debug_log = debug_log

    def __enter__(self):
        w = self.world
        self.saved = (dr.time, plugins.signal, insights.get_pool, logging.root.manager.disable)
        dr.time = w.clock
        self.sig = SimSignal(w.clock)
        plugins.signal = self.sig
        if self.debug_log:
            logging.disable(logging.NOTSET)
            for lg in (dr.log, plugins.log):
                lg.setLevel(logging.DEBUG)
                lg.propagate = False
                if not lg.handlers:
                    lg.addHandler(logging.StreamHandler(_Sink()))
            self.raise_exc = logging.raiseExceptions
            logging.raiseExceptions = False
        return self

    def __exit__(self, *a):
        dr.time, plugins.signal, insights.get_pool, dis = self.saved
        for lg in (dr.log, plugins.log):
            lg.setLevel(logging.NOTSET)
            lg.propagate = True
        if self.debug_log:
            logging.raiseExceptions = self.raise_exc
        logging.disable(logging.CRITICAL)
        return False


def run_driver(world, driver, graph):
    """Runs the real driver.  Returns (brokers, escaped_exception, pool)."""
    kind = driver["kind"]
    if kind.endswith("_n") and not fresh_brokers_ok(world.case):
        kind = kind[:-2]            # (only reachable through shrinking) degrade to the shared-broker variant
    pool = None
    entry = driver.get("entry")
    if entry and kind != "order" and not world.case.get("graph_drop"):
        # other documented forms of the 'components' argument: resolved by the real determine_components()
        tg = world.case["targets"] if world.case["targets"] is not None else list(range(len(world.objs)))
        if entry == "group_object" and world.case["targets"] is None and not world.case.get("sac"):
            graph = dr.COMPONENTS[dr.GROUPS.single]          # the table itself, as dr.run() with no argument takes it
            world.fired("entry_group_object")
        elif entry == "group" and world.case["targets"] is None:
            # the engine's own table of the default group (what dr.run() with no components evaluates), restricted to
            # the generated program the way insights._run restricts it to the loaded plugins: the table's own value sets
            graph = dict((k, v) for k, v in dr.COMPONENTS[dr.GROUPS.single].items() if k in world.idx)
            world.fired("entry_group_table")
        elif entry == "single" and len(tg) == 1 and not world.case["nodes"][tg[0]].get("falsy"):
            # (a component object that tests False cannot be passed on its own: `components or <default group>` takes it
            # for "no components given" and evaluates everything registered -- noted in DESIGN 8.8)
            graph = world.objs[tg[0]]
        else:
            graph = [world.objs[i] for i in tg]
    if driver.get("seed_broker"):
        _nb = world.new_broker

        def seeded_copy(observers=True):
            b0 = _nb(observers)
            b = dr.Broker(b0)
            b.store_skips = b0.store_skips
            return b
        world.new_broker = seeded_copy
    try:
        if kind == "run":
            b = world.new_broker()
            dr.run(graph, b)
            return [b], None, None
        if kind == "order" and driver.get("names"):
            # an explicit order (pinned from an observed address-dependent run); unknown names are ignored, components
            # of the graph that are not named follow in a seeded-hash independent order
            b = world.new_broker()
            byname = dict((cname(c), c) for c in set(graph) | set(d for v in graph.values() for d in v))
            order = [byname[n] for n in driver["names"] if n in byname]
            order += [byname[n] for n in sorted(byname) if byname[n] not in order]
            world.forced_order = [cname(c) for c in order]
            dr.run_components(order, graph, b)
            return [b], None, None
        if kind == "order":
            b = world.new_broker()
            order = linear_extension(graph, random.Random(driver["order_seed"]))
            world.forced_order = [cname(c) for c in order]
            dr.run_components(order, graph, b)
            return [b], None, None
        if kind == "rerun":
            b = world.new_broker()
            for i in driver["late_enable"]:
                dr.set_enabled(world.objs[i], False)
            dr.run(graph, b)
            for i in driver["late_enable"]:
                dr.set_enabled(world.objs[i], True)
            world.fired("same_broker_evaluated_again")
            dr.run(graph, b)
            return [b], None, None
        if kind == "incr":
            b = world.new_broker()
            list(dr.run_incremental(graph, b))
            return [b], None, None
        if kind == "all":
            b = world.new_broker()
            dr.run_all(graph, b, None)
            return [b], None, None
        if kind == "incr_n":
            return list(dr.run_incremental(graph, None)), None, None
        if kind == "all_n":
            return list(dr.run_all(graph, None, None)), None, None
        if kind == "pool":
            b = world.new_broker()
            sched = dict(driver["sched"])
            pool = SimPool(random.Random(sched.get("seed", 0)), max_workers=driver.get("workers", 2), policy=sched,
                           traced_files=TRACED_FILES, opcode_files=((dr.__file__, plugins.__file__) if sched.get("opcode") else ()),
                           max_steps=60000 if sched.get("opcode") else 20000)
            world.pool = pool
            pool.trace_main_now()
            try:
                dr.run_all(graph, b, pool)
                # what the caller finds when run_all hands control back: every sub-graph must be finished by then
                world.pending_at_return = sum(1 for t in pool.tasks if not t.done)
            finally:
                pool.shutdown()
            return [b], None, pool
        raise HarnessError("unknown driver %r" % kind)
    except (HarnessError, SimDeadlock):
        raise
    except Exception as e:           # an exception escaping the engine is itself an observation
        return [], e, pool


def broker_signature(world, brokers):
    """Structural signature of the final broker state, merged over sub-graph brokers."""
    idx = world.idx
    vals = {}
    excs = []
    miss = {}
    conflicts = []
    tb_bad = []
    foreign = []
    for b in brokers:
        for k, v in b.instances.items():
            if k is HostContext or k is SerializedArchiveContext:
                continue
            if k not in idx:
                foreign.append(("value", repr(k)))
                continue
            cv = canon(v)
            n = cname(k)
            if n in vals and vals[n] != cv:
                conflicts.append((n, vals[n], cv))
            vals[n] = cv
        for k, lst in b.exceptions.items():
            if k not in idx:
                for e in lst:
                    foreign.append(("exception", getattr(k, "__name__", repr(k)), kind_of(e), tag_of(e)))
                continue
            for e in lst:
                excs.append((cname(k), kind_of(e), tag_of(e)))
                try:
                    tb = b.tracebacks.get(e)
                except TypeError:
                    tb = None
                if not isinstance(tb, str) or type(e).__name__ not in tb:
                    tb_bad.append((cname(k), kind_of(e), tag_of(e)))
        for k, m in b.missing_requirements.items():
            if k not in idx:
                continue              # (the default group holds the shipped registry points as well: nobody implements them here)
            miss[cname(k)] = canon_missing(m)
    return {"vals": vals, "excs": sorted(excs), "miss": miss, "conflicts": conflicts, "tb_bad": tb_bad,
            "foreign": foreign}


def model_signature(case, m):
    nodes = case["nodes"]
    vals = dict((nodes[i]["name"], v) for i, v in m["val"].items())
    miss = dict((nodes[i]["name"], v) for i, v in m["missing"].items())
    return {"vals": vals, "excs": m["exc"], "miss": miss}


def _norm(x):
    """JSON-stable normal form (tuples -> lists) so signatures compare equal after a round trip."""
    if isinstance(x, (list, tuple)):
        return [_norm(y) for y in x]
    if isinstance(x, dict):
        return dict((k, _norm(v)) for k, v in x.items())
    return x


class Run(object):
    """One execution of a case under one driver: everything the oracles need."""
    pass


def concurrent_graph_callers(world, case):
    """Two SimPool tasks call dr.get_dependency_graph() for two targets at once.  Reference: what a lone caller gets
    (asked first; one more registration afterwards, which changes no existing graph, lets an implementation that
    remembers graphs start from scratch).  Demanded (C01): in the order the engine derives from the graph a concurrent
    caller got, no component stands before a declared dependency that takes part."""
    cg = case["conc_graph"]
    tg = [world.objs[i] for i in cg["targets"] if i < len(world.objs) and world.objs[i] is not None]
    if len(tg) < 2:
        return []
    ref = [dict((k, set(v)) for k, v in dr.get_dependency_graph(t).items()) for t in tg]

    class _Late(object):
        __name__ = "conc_graph_bystander"
        __module__ = MODNAME
        __qualname__ = "conc_graph_bystander"

        def __call__(self, *a):
            return None

        def __hash__(self):
            return 7
    plugins.datasource()(_Late())
    pool = SimPool(random.Random(cg["seed"]), max_workers=2, policy={"kind": "walk", "p": cg["p"], "opcode": cg.get("opcode")},
                   traced_files=TRACED_FILES, opcode_files=((dr.__file__,) if cg.get("opcode") else ()), max_steps=20000)
    out = []
    try:
        futs = [pool.submit(dr.get_dependency_graph, t) for t in tg]
        got = []
        for f in futs:
            try:
                got.append(f.result())
            except (HarnessError, SimDeadlock):
                raise
            except Exception as e:
                got.append(e)
    finally:
        pool.shutdown()
    world.fired("concurrent_graph_callers")
    world.conc_switches = len(pool.switches)
    for t, r0, g in zip(tg, ref, got):
        if isinstance(g, Exception):
            out.append(V("C01.graph", "concurrent-caller:raised:%s" % type(g).__name__,
                         "get_dependency_graph(%s) raised %r while another thread asked for %s" % (cname(t), g, [cname(x) for x in tg])))
            continue
        try:
            order = list(dr.run_order(dict((k, set(v)) for k, v in g.items())))
        except Exception as e:
            out.append(V("C01.graph", "concurrent-caller:unorderable", "graph of %s: run_order raised %r" % (cname(t), e)))
            continue
        pos = dict((c, k) for k, c in enumerate(order))
        missing_keys = [cname(k) for k in r0 if k not in g]
        bad = [(cname(c), cname(d)) for c, deps in r0.items() for d in deps if c in pos and d in pos and d in r0 and pos[d] > pos[c]]
        if missing_keys or bad:
            out.append(V("C01.graph", "concurrent-caller:attempted-before-dependency" if bad else "concurrent-caller:components-lost",
                         "graph of %s obtained while another thread built the graph of %s: %s" % (
                             cname(t), [cname(x) for x in tg if x is not t],
                             ("order puts %s before its declared dependency %s" % bad[0]) if bad else ("components missing: %s" % missing_keys[:4]))))
    return out


def execute_once(case, driver):
    """Build the program, run the real engine under ``driver``, gather observations."""
    world = World(case)
    with registry.scope():
        with Patches(world, case.get("debug_log")) as patches:
            world.make_observers()
            world.build()
            graph = world.graph()
            conc_viols = concurrent_graph_callers(world, case) if case.get("conc_graph") else []
            if case.get("prelude"):
                sub = dict((world.objs[i], dr.get_dependencies(world.objs[i])) for i in case["prelude"]
                           if i < len(world.objs) and world.objs[i] in graph)
                if sub:
                    try:
                        for g in dr.get_subgraphs(sub):
                            dr.run_order(g)
                    except Exception:
                        pass
                    world.fired("prelude_partial_graph_ordered")
                    graph = world.graph()
            r = Run()
            r.world = world
            r.conc_viols = conc_viols
            r.graph_names = sorted(cname(k) for k in graph)
            # the real ordering function, checked on its own output
            try:
                r.run_order = [cname(c) for c in dr.run_order(graph)]
            except Exception as e:
                r.run_order = ("ESCAPE", repr(e))
            r.graph_edges = dict((cname(k), sorted(cname(d) for d in v)) for k, v in graph.items())
            try:
                subs = list(dr.get_subgraphs(dict(graph)))
                r.subgraphs = [sorted(cname(k) for k in s) for s in subs]
                r.subgraph_edges = [dict((cname(k), sorted(cname(d) for d in v)) for k, v in s.items()) for s in subs]
            except Exception as e:
                r.subgraphs = ("ESCAPE", repr(e))
                r.subgraph_edges = []
            del world.ev[:]
            brokers, escaped, pool = run_driver(world, driver, graph)
            r.escaped = escaped
            r.sig = broker_signature(world, brokers)
            r.seed_identity_ok = True
            for b in brokers:
                for i in case["seeded"]:
                    o = world.objs[i]
                    want = None if i in (case.get("seed_none") or ()) else ("seed", case["nodes"][i]["name"])
                    if o not in b or canon(b[o]) != want:
                        r.seed_identity_ok = False
            r.ev = list(world.ev)
            r.pool = pool
            r.signal = patches.sig
            r.clock = world.clock
            r.forced_order = getattr(world, "forced_order", None)
            r.pending_at_return = getattr(world, "pending_at_return", 0)
            # the table of the default group mixes the program with ~860 shipped registry points whose hashes are not
            # seeded: which valid order the engine picks among the program's components is then up to the interpreter
            r.unordered = driver.get("entry") == "group_object"
            r.faults_fired = world.faults_fired
    return r


# ------------------------------------------------------------------------------------------------
# oracles
# ------------------------------------------------------------------------------------------------
def V(oracle, cls, message):
    return {"oracle": oracle, "cls": cls, "message": message}


def node_by_name(case):
    return dict((nd["name"], nd) for nd in case["nodes"])


def oracle_c01(case, driver, r):
    out = []
    nb = node_by_name(case)
    if r.escaped is not None:
        out.append(V("C01.escape", "escape:%s" % type(r.escaped).__name__, "driver %s raised %r" % (driver["kind"], r.escaped)))
        return out
    out.extend(getattr(r, "conc_viols", None) or [])
    if getattr(r, "pending_at_return", 0):
        out.append(V("C01.completion", "run_all-returned-before-its-sub-graphs-finished",
                     "%d pool task(s) were still running when run_all returned" % r.pending_at_return))
    # (iv) the real ordering function returns a linear extension with every node exactly once
    ro = r.run_order
    if isinstance(ro, tuple):
        out.append(V("C01.order", "run_order-raised", "run_order raised %s" % ro[1]))
    else:
        pos = dict((n, k) for k, n in enumerate(ro))
        allnodes = set(r.graph_edges) | set(d for v in r.graph_edges.values() for d in v)
        # every component of the graph exactly once; dependencies that are not keys of the graph (they do not take part
        # in the evaluation) may or may not be listed -- the property does not say
        if len(ro) != len(pos) or not set(r.graph_edges) <= set(ro) or not set(ro) <= allnodes:
            out.append(V("C01.order", "run_order-not-a-permutation", "run_order=%s nodes=%s" % (ro, sorted(allnodes))))
        else:
            for k, deps in r.graph_edges.items():
                for d in deps:
                    if d in pos and pos[d] > pos[k]:
                        out.append(V("C01.order", "run_order-dependency-after-dependent",
                                     "%s is ordered before its dependency %s: %s" % (k, d, ro)))
                        break
    # event-order invariants
    first_obs = {}
    ncalls = {}
    seen_args = {}
    graph_keys = set(r.graph_names)
    participants = set(case["nodes"][i]["name"] for i in graph_nodes(dict(case, driver=driver)))
    for seq, e in enumerate(r.ev):
        if e[0] == "obs" and e[1] == "mon":
            first_obs.setdefault(e[2], seq)
        elif e[0] == "call":
            name = e[1]
            nd = nb[name]
            ncalls[name] = ncalls.get(name, 0) + 1
            seen_args.setdefault(name, []).append(e[2])
            deps = [case["nodes"][j]["name"] for j in dep_set(nd)]
            for d in deps:
                if d in graph_keys and d in participants and d not in first_obs:
                    out.append(V("C01.after-deps", "called-before-dependency-attempted:%s" % nd["type"],
                                 "%s was invoked at event %d before its dependency %s was attempted (driver %s)"
                                 % (name, seq, d, driver["kind"])))
    ing_names = set(case["nodes"][i]["name"] for i in graph_nodes(dict(case, driver=driver)))
    for name in sorted(ing_names):
        nd = nb[name]
        if name not in first_obs:
            continue
        for j in dep_set(nd):
            d = case["nodes"][j]["name"]
            if d in ing_names and d in first_obs and first_obs[d] > first_obs[name]:
                out.append(V("C01.after-deps", "attempted-before-dependency:%s" % nd["type"],
                             "%s was attempted (event %d) before its dependency %s (event %d), both take part (driver %s)"
                             % (name, first_obs[name], d, first_obs[d], driver["kind"])))
    for name, n in ncalls.items():
        nd = nb[name]
        if nd["type"] == "parser":
            args = seen_args[name]
            if len(set(repr(a) for a in args)) != len(args):
                out.append(V("C01.once", "invoked-twice:parser", "%s invoked %d times with repeated input: %s" % (name, n, args)))
        elif n > 1:
            out.append(V("C01.once", "invoked-twice:%s" % nd["type"], "%s invoked %d times (driver %s)" % (name, n, driver["kind"])))
    # (iii) seeds
    for i in case["seeded"]:
        name = case["nodes"][i]["name"]
        if ncalls.get(name):
            out.append(V("C01.seed", "seeded-recomputed", "pre-seeded %s was invoked" % name))
    if not r.seed_identity_ok:
        out.append(V("C01.seed", "seeded-overwritten", "a pre-seeded value is not in the final broker unchanged"))
    return out


def calls_from_events(ev):
    calls = {}
    for e in ev:
        if e[0] == "call":
            calls.setdefault(e[1], []).append(e[2])
    return calls


def oracle_c02(case, driver, r, m):
    out = []
    if r.escaped is not None:
        out.append(V("C02.escape", "escape:%s" % type(r.escaped).__name__, "driver %s raised %r" % (driver["kind"], r.escaped)))
        return out
    nodes = case["nodes"]
    got = calls_from_events(r.ev)
    exp = dict((nodes[i]["name"], [tuple(a) for a in v]) for i, v in m["calls"].items())
    nb = node_by_name(case)
    for name in sorted(set(got) | set(exp)):
        g = got.get(name)
        e = exp.get(name)
        t = nb[name]["type"]
        if g is None:
            out.append(V("C02.fires", "not-invoked:%s" % t, "%s should have been invoked with %s but was not" % (name, e)))
        elif e is None:
            out.append(V("C02.fires", "invoked-unexpectedly:%s" % t, "%s was invoked with %s although its requirements are not met / it is disabled" % (name, g)))
        elif _norm(g) != _norm(e):
            out.append(V("C02.binding", "wrong-arguments:%s" % t, "%s received %s, expected %s" % (name, g, e)))
    gm = r.sig["miss"]
    em = dict((nodes[i]["name"], v) for i, v in m["missing"].items())
    for name in sorted(set(gm) | set(em)):
        if _norm(gm.get(name)) != _norm(em.get(name)):
            out.append(V("C02.missing", "missing-report:%s" % nb[name]["type"],
                         "%s: reported missing %s, expected %s" % (name, gm.get(name), em.get(name))))
    # rules: the skip response carries the same pair
    for i, v in m["val"].items():
        if isinstance(v, tuple) and v and v[0] == "skipresp":
            name = nodes[i]["name"]
            gv = r.sig["vals"].get(name, ABSENT)
            if _norm(gv) != _norm(v):
                out.append(V("C02.missing", "rule-skip-response", "%s: got %s, expected skip response %s" % (name, gv, v)))
    # disabled / out-of-graph components leave no trace
    en = m.get("en") or enabled_map(case)
    ing = graph_nodes(case)
    for i, nd in enumerate(nodes):
        if i in case["seeded"]:
            continue
        if not en[i] or i not in ing:
            name = nd["name"]
            if name in r.sig["vals"] or name in gm or any(x[0] == name for x in r.sig["excs"] if x[2].split("#")[0] == name):
                out.append(V("C02.disabled", "disabled-left-trace:%s" % nd["type"], "%s is disabled / not in the graph but left a record" % name))
    return out


def _raiser(nb, target, tag):
    base = tag.split("#")[0]
    if base in nb:
        return base
    for n in nb:
        if ("%s.%s " % (MODNAME, n)) in tag:
            return n
    return target


def oracle_c03(case, driver, r, m):
    out = []
    nb = node_by_name(case)
    if r.escaped is not None:
        kinds = sorted(set(nd["out"] for nd in case["nodes"]))
        cls = "escape:%s" % type(r.escaped).__name__
        if isinstance(r.escaped, TypeError) and "unhashable" in str(r.escaped):
            cls = "escape:unhashable-exception"
        out.append(V("C03.escape", cls, "driver %s raised %r (outcomes in program: %s)" % (driver["kind"], r.escaped, kinds)))
        return out
    ms = model_signature(case, m)
    gv, ev_ = r.sig["vals"], ms["vals"]
    for name in sorted(set(gv) | set(ev_)):
        a, b = gv.get(name, ABSENT), ev_.get(name, ABSENT)
        if _norm(a) != _norm(b):
            kind = "lost" if a == ABSENT else ("unexpected" if b == ABSENT else "different")
            out.append(V("C03.isolation", "value-%s:%s" % (kind, nb[name]["type"]),
                         "%s: final value %s, expected %s" % (name, a, b)))
    ge = list(r.sig["excs"])
    ee = list(ms["excs"])
    for x in list(ge):
        if x in ee:
            ee.remove(x)
            ge.remove(x)
    for (target, kind, tag), what in [(x, "extra") for x in ge] + [(x, "lost") for x in ee]:
        raiser = _raiser(nb, target, tag)
        rel = "self" if raiser == target else ("spec" if nb[target]["type"] == "rp" else "other")
        rtype = nb[raiser]["type"]
        if "#" in tag:
            rtype += "-element"
        out.append(V("C03.attribution", "exc-%s:%s:%s:%s" % (what, rtype, kind, rel),
                     "exception %s(%r) raised in %s: %s record against %s (store_skips=%s)" % (
                         kind, tag, raiser, "unexpected" if what == "extra" else "missing", target, case["store_skips"])))
    for x in r.sig["foreign"]:
        out.append(V("C03.attribution", "recorded-against-foreign-component:%s" % (x[2] if len(x) > 2 else x[0]),
                     "recorded against something that is not part of the program: %s" % (x,)))
    for x in r.sig["tb_bad"]:
        out.append(V("C03.traceback", "no-traceback:%s" % x[1], "exception %s recorded without a text traceback naming its type" % (x,)))
    for x in r.sig["conflicts"]:
        out.append(V("C03.isolation", "conflicting-values", "two brokers disagree: %s" % (x,)))
    # observers: a failing observer does not stop the others
    mon = {}
    per = {}
    for e in r.ev:
        if e[0] == "obs":
            if e[1] == "mon":
                mon[e[2]] = mon.get(e[2], 0) + 1
            else:
                per[(e[1], e[2])] = per.get((e[1], e[2]), 0) + 1
    for name in r.graph_names:
        if name in nb and mon.get(name, 0) != 1:
            out.append(V("C03.observers", "observers-not-fired-once:%s" % nb[name]["type"],
                         "observers fired %d times for %s (in the graph), expected once; outcome=%s"
                         % (mon.get(name, 0), name, nb[name]["out"])))
    if r.signal.deadline is not None:
        out.append(V("C03.timer", "alarm-left-armed", "a timeout alarm is still armed after the evaluation returned"))
    tmap = {"all": None, "rule": ("rule",), "datasource": ("datasource", "rp"), "parser": ("parser",),
            "plugin": ("component", "datasource", "rp", "parser", "combiner", "rule", "condition", "incident")}
    local_ok = driver["kind"] not in ("incr_n", "all_n")
    for spec in case["observers"]:
        if not spec["glob"] and not local_ok:
            continue
        for name, n in mon.items():
            if name not in nb:
                continue
            types_ = tmap[spec["on"]]
            if types_ is not None and nb[name]["type"] not in types_:
                exp = 0
            else:
                exp = n
            got = per.get((spec["name"], name), 0)
            if got != exp:
                out.append(V("C03.observers", "observer-count", "observer %s fired %d times for %s, expected %d" % (spec["name"], got, name, exp)))
    return out


def oracle_partition(case, r):
    out = []
    if isinstance(r.subgraphs, tuple):
        out.append(V("C04.partition", "get_subgraphs-raised", r.subgraphs[1]))
        return out
    keys = [set(s) for s in r.subgraphs]
    allk = set(r.graph_names)
    union = set().union(*keys) if keys else set()
    if union != allk:
        out.append(V("C04.partition", "subgraphs-lose-components", "missing %s extra %s" % (sorted(allk - union), sorted(union - allk))))
    if sum(len(k) for k in keys) != len(union):
        out.append(V("C04.partition", "subgraphs-duplicate-components", "sub-graphs overlap: %s" % r.subgraphs))
    where = {}
    for n, k in enumerate(keys):
        for c in k:
            where[c] = n
    for k, deps in r.graph_edges.items():
        for d in deps:
            if d in where and k in where and where[d] != where[k]:
                out.append(V("C04.partition", "edge-crosses-subgraphs", "%s -> %s joins two sub-graphs" % (k, d)))
    for n, se in enumerate(r.subgraph_edges):
        for k, deps in se.items():
            if sorted(deps) != sorted(r.graph_edges.get(k, [])) and k in r.graph_edges:
                # a sub-graph lists the declared dependencies of the component (may exceed the graph's own value
                # only by nodes that were dropped from the graph)
                pass
    return out


# ------------------------------------------------------------------------------------------------
# shrinking
# ------------------------------------------------------------------------------------------------
def _copy(case):
    import json
    return json.loads(json.dumps(case))


def remove_node(case, k):
    """Remove node k; references are dropped, empty groups vanish, orphaned parsers become components."""
    c = _copy(case)
    nodes = c["nodes"]
    del nodes[k]

    def remap(lst):
        return [j - 1 if j > k else j for j in lst if j != k]
    for nd in nodes:
        if nd["type"] == "parser" and nd["req"] and nd["req"][0] == k:
            nd["type"] = "component"
            nd.pop("coe", None)
            nd.pop("eouts", None)
        nd["req"] = remap(nd["req"])
        gp = nd.get("gpos") or [len(nd["req"])] * len(nd["groups"])
        keep = [(remap(g), p) for g, p in zip(nd["groups"], gp)]
        nd["groups"] = [g for g, p in keep if g]
        nd["gpos"] = [p for g, p in keep if g]
        nd["opt"] = remap(nd["opt"])
        if nd.get("add_late"):
            nd["add_late"] = remap(nd["add_late"]) if nd["groups"] else []
        if nd.get("implicit"):
            nd["implicit"] = remap(nd["implicit"])
        if nd.get("implicit_opt"):
            nd["implicit_opt"] = remap(nd["implicit_opt"])
        if nd["type"] == "rp":
            nd["impls"] = remap(nd["impls"])
            nd["late"] = min(nd.get("late", 0), max(0, len(nd["impls"]) - 1))
    nodes[:] = nodes
    # an rp without implementations cannot be declared; turn it into a datasource
    for nd in nodes:
        if nd["type"] == "rp" and not nd["impls"]:
            nd["type"] = "datasource"
            nd.pop("impls")
            nd["multi"] = False
            nd["elems"] = 0
    for nd in nodes:
        if nd.get("toggles"):
            nd["toggles"] = [[j - 1 if j > k else j, st] for j, st in nd["toggles"] if j != k]
    for i, nd in enumerate(nodes):
        if nd.get("toggles"):
            # only a component that is still down-stream of the toggler may be toggled (else the outcome depends on the order)
            nd["toggles"] = [[j, st] for j, st in nd["toggles"] if j < len(nodes) and j != i and i in closure(nodes, [j])]
            if not nd["toggles"]:
                nd.pop("toggles")
    if c.get("retag") is not None:
        c["retag"] = [dict(rt, node=rt["node"] - 1 if rt["node"] > k else rt["node"]) for rt in c["retag"] if rt["node"] != k]
    c["seeded"] = remap(c["seeded"])
    c["seed_none"] = remap(c.get("seed_none") or [])
    if c["targets"] is not None:
        c["targets"] = remap(c["targets"]) or None
    c["graph_drop"] = remap(c.get("graph_drop") or [])
    return c


def shrink_program(case):
    n = len(case["nodes"])
    for k in reversed(range(n)):
        if n > 1:
            yield remove_node(case, k)
    for k, nd in enumerate(case["nodes"]):
        if nd.get("gpos") and any(p < len(nd["req"]) for p in nd["gpos"]):
            c = _copy(case)
            c["nodes"][k]["gpos"] = [len(nd["req"])] * len(nd["groups"])
            yield c
    for key, simple in (("observers", []), ("enable_cfg", None), ("graph_drop", []), ("targets", None),
                        ("seeded", []), ("debug_log", False), ("store_skips", False), ("hostctx", False), ("sac", False)):
        if case.get(key) != simple:
            c = _copy(case)
            c[key] = simple
            yield c
    if len(case.get("observers") or []) > 1:
        for k in range(len(case["observers"])):
            c = _copy(case)
            del c["observers"][k]
            yield c
    if case.get("enable_cfg") and case["enable_cfg"].get("configs"):
        for k in range(len(case["enable_cfg"]["configs"])):
            c = _copy(case)
            del c["enable_cfg"]["configs"][k]
            yield c
    for k, nd in enumerate(case["nodes"]):
        if nd["out"] != "value":
            c = _copy(case)
            c["nodes"][k]["out"] = "value"
            c["nodes"][k]["work"] = 0.0
            yield c
        if nd.get("eouts") and nd["eouts"] != ["value"] * 4:
            for e in range(4):
                if nd["eouts"][e] != "value":
                    c = _copy(case)
                    c["nodes"][k]["eouts"][e] = "value"
                    yield c
        if not nd["enabled"]:
            c = _copy(case)
            c["nodes"][k]["enabled"] = True
            yield c
        for fld in ("decl_form", "opt_single", "implicit", "disable_by_name", "prio"):
            if nd.get(fld):
                c = _copy(case)
                c["nodes"][k].pop(fld)
                yield c
        if nd.get("work") and nd["out"] != "slow":
            c = _copy(case)
            c["nodes"][k]["work"] = 0.0
            yield c
        for fld in ("req", "opt"):
            for x in range(len(nd[fld])):
                if nd["type"] == "parser" and fld == "req" and x == 0:
                    continue
                c = _copy(case)
                del c["nodes"][k][fld][x]
                yield c
        for gi in range(len(nd["groups"])):
            c = _copy(case)
            del c["nodes"][k]["groups"][gi]
            if c["nodes"][k].get("gpos"):
                del c["nodes"][k]["gpos"][gi]
            yield c
            if len(nd["groups"][gi]) > 1:
                for x in range(len(nd["groups"][gi])):
                    c = _copy(case)
                    del c["nodes"][k]["groups"][gi][x]
                    yield c
        if nd["type"] == "rp" and nd.get("late"):
            c = _copy(case)
            c["nodes"][k]["late"] = 0
            yield c
        if nd["type"] == "rp" and len(nd["impls"]) > 1:
            for x in range(len(nd["impls"])):
                c = _copy(case)
                del c["nodes"][k]["impls"][x]
                c["nodes"][k]["late"] = min(c["nodes"][k].get("late", 0), len(c["nodes"][k]["impls"]) - 1)
                yield c
        if nd.get("needs_host"):
            c = _copy(case)
            c["nodes"][k]["needs_host"] = False
            yield c
        if nd.get("multi") and nd.get("elems", 0) > 1:
            c = _copy(case)
            c["nodes"][k]["elems"] = nd["elems"] - 1
            yield c
        if nd["type"] in ("combiner", "condition", "incident", "plain"):
            c = _copy(case)
            c["nodes"][k]["type"] = "component"
            yield c


def shrink_driver(driver):
    """Candidates for a simpler driver."""
    k = driver["kind"]
    if k != "run":
        yield {"kind": "run"}
    for fld in ("entry", "seed_broker"):
        if driver.get(fld):
            d = dict(driver)
            d.pop(fld)
            yield d
    if k == "pool":
        if driver.get("workers") != 2:
            d = dict(driver)
            d["workers"] = 2
            yield d
        sched = driver["sched"]
        if sched["kind"] == "replay":
            sw = sched["switches"]
            n = len(sw)
            chunk = n // 2
            while chunk >= 1:
                for a in range(0, n, chunk):
                    d = dict(driver)
                    d["sched"] = {"kind": "replay", "switches": sw[:a] + sw[a + chunk:], "opcode": bool(sched.get("opcode"))}
                    yield d
                chunk //= 2


# ------------------------------------------------------------------------------------------------
# Checks
# ------------------------------------------------------------------------------------------------
COMMON_REAL = {
    "insights.core.dr (run, run_components, run_incremental, run_all, get_subgraphs, run_order, Broker)": "real",
    "insights.contrib.toposort": "real",
    "insights.core.plugins (component types, datasource.invoke timer logic, parser.invoke, rule.process, Response)": "real",
    "insights.core.spec_factory.RegistryPoint": "real (subclass adding a seeded __hash__)",
    "insights.apply_default_enabled / apply_configs / dr.set_enabled": "real",
    "component bodies": "generated (deterministic functions of their arguments acting out the fault plan)",
    "time.time seen by dr": "SimClock",
    "signal module seen by plugins.datasource": "SimSignal bound to SimClock (delivers the real _handle_timeout)",
    "thread pool": "SimPool (real threads, seeded baton passing at traced line events)",
}
COMMON_ASSUMPTIONS = [
    "generated programs are acyclic and have <= 16 components; small programs are favoured",
    "component bodies are deterministic functions of their arguments",
    "thread interleavings are explored at source-line granularity inside dr.py, plugins.py and spec_factory.py",
    "CPython 3.12 only (the six.PY2 branches never run)",
    "reference model (worlds/w1_engine.model) is trusted; it was cross-examined against the tree and the mutants in /verif/mutants",
]


class EngineCheck(Check):
    flavour = None
    drivers = None
    real_vs_stub = COMMON_REAL
    assumptions = COMMON_ASSUMPTIONS

    def __init__(self, prop):
        self.prop = prop

    def generate(self, st, tier):
        case = gen_program(st, self.flavour, tier)
        case["driver"] = gen_driver(st, case, self.flavour, self.drivers)
        return case

    def oracles(self, case, driver, r, m):
        raise NotImplementedError

    def execute(self, case):
        driver = case["driver"]
        if not toggles_sound(case):
            # (only reachable through shrinking: an edge or a pruning option changed under a toggle)
            return {"digest": "invalid", "sig": "invalid", "violations": [], "stats": {"faults_fired": {}, "drivers": {}, "probes": {"unsound_case_skipped": 1}},
                    "nontrivial": False, "sim_seconds": 0.0, "distinct": {}}
        r = execute_once(case, driver)
        if driver["kind"] == "rerun":
            m1 = model(case, disabled=driver["late_enable"])
            m = model(case, prior=m1)
            # a report of unmet requirements left over from the first evaluation is neither demanded nor forbidden once
            # the component has been evaluated
            done = set(case["nodes"][i]["name"] for i in m["val"])
            r.sig["miss"] = dict((k, v) for k, v in r.sig["miss"].items() if not (k in done and k in r.sig["vals"]))
            m["missing"] = dict((i, v) for i, v in m["missing"].items() if i not in m["val"])
        else:
            m = model(case, pool_thread=driver["kind"] == "pool")
        viols = self.oracles(case, driver, r, m)
        return self.result(case, [r], viols)

    def result(self, case, runs, viols):
        stats = {"faults_fired": {}, "drivers": {}, "probes": {}}
        log = []
        nontrivial = False
        sim = 0.0
        for r in runs:
            for k, v in r.faults_fired.items():
                stats["faults_fired"][k] = stats["faults_fired"].get(k, 0) + v
                nontrivial = True
            log.append(sorted(r.ev, key=repr) if getattr(r, "unordered", False) else r.ev)
            log.append(sorted(r.sig["vals"].items()))
            log.append(r.sig["excs"])
            log.append(sorted(r.sig["miss"].items()))
            log.append(r.forced_order)
            sim += r.clock.elapsed()
            if r.pool is not None:
                log.append(r.pool.switches)
                stats["probes"]["pool_switches"] = stats["probes"].get("pool_switches", 0) + len(r.pool.switches)
                stats["probes"]["pool_steps"] = stats["probes"].get("pool_steps", 0) + r.pool.steps
                if r.pool.capped:
                    stats["probes"]["pool_step_cap_hit"] = stats["probes"].get("pool_step_cap_hit", 0) + 1
                if len(r.pool.switches) > len(r.pool.tasks) + 1:
                    nontrivial = True
            if r.signal.armed:
                stats["probes"]["alarms_armed"] = stats["probes"].get("alarms_armed", 0) + r.signal.armed
            if r.signal.fired:
                stats["probes"]["alarms_fired"] = stats["probes"].get("alarms_fired", 0) + r.signal.fired
            if not isinstance(r.subgraphs, tuple) and len(r.subgraphs) > 1:
                stats["probes"]["cases_with_several_subgraphs"] = stats["probes"].get("cases_with_several_subgraphs", 0) + 1
            if r.sig["miss"]:
                stats["probes"]["runs_with_missing_requirements"] = stats["probes"].get("runs_with_missing_requirements", 0) + 1
            if r.forced_order or len(r.graph_names) > 1:
                nontrivial = True
        d = case["driver"]["kind"]
        stats["drivers"][d] = 1
        if case["seeded"]:
            stats["probes"]["cases_with_preseeded_values"] = 1
        if any(nd["type"] == "rp" for nd in case["nodes"]):
            stats["probes"]["cases_with_registry_points"] = 1
        if case.get("enable_cfg"):
            stats["probes"]["cases_with_apply_configs"] = 1
        if any(o["raises"] for o in case["observers"]):
            stats["probes"]["cases_with_failing_observer"] = 1
        dg = digest(log)
        scheds = [r.pool.switches for r in runs if r.pool is not None and len(r.pool.switches) > len(r.pool.tasks) + 1]
        orders = [[e[2] for e in r.ev if e[0] == "obs" and e[1] == "mon"] for r in runs]
        return {"digest": dg, "sig": dg, "violations": viols, "stats": stats, "nontrivial": nontrivial, "sim_seconds": sim,
                "distinct": {"pool_schedules": digest(scheds) if scheds else None,
                             "attempt_orders": digest(orders),
                             "programs": digest(case["nodes"])}}

    def shrink(self, case):
        driver = case["driver"]
        # 1. pin the schedule: convert a seeded policy into the explicit list of switches that happened
        if driver["kind"] == "pool" and driver["sched"]["kind"] != "replay":
            r = execute_once(case, driver)
            if r.pool is not None:
                c = _copy(case)
                c["driver"]["sched"] = {"kind": "replay", "switches": [list(x) for x in r.pool.switches],
                                        "opcode": bool(driver["sched"].get("opcode"))}
                yield c
        for d in shrink_driver(driver):
            c = _copy(case)
            c["driver"] = d
            yield c
        for c in shrink_program(case):
            if c["driver"]["kind"] == "pool" and c["driver"]["sched"]["kind"] == "replay":
                # a smaller program invalidates step indices; fall back to a seeded walk for the candidate
                pass
            yield c

    def describe(self, case):
        return case


class C01(EngineCheck):
    flavour = "C01"
    title = "Components run at most once, and only after their dependencies were attempted"
    quick = dict(runs=220000, wall=100)
    thorough = dict(runs=10000000, wall=1500)
    rule = ("case = generated component program (<=12 quick / <=16 thorough nodes over 9 component types incl. registry points, "
            "required / at-least-one / optional edges, fault plan, pre-seeded subset, targets) x driver (dr.run with the "
            "engine's own seeded tie-break, run_components on a seeded linear extension, run_incremental, run_all, run_all on "
            "SimPool with a seeded walk/PCT schedule; entry forms graph dict / list / single component / the default "
            "group's own table (as a filtered copy, or the table object itself after the default group was evaluated once before "
            "the late registrations); component objects that test False; class-level requires / optional of a component type; "
            "supplied values incl. None; 0.4% wide programs with 65-140 sub-graphs; no pool task may be pending when run_all returns); "
            "non-trivial = more than one component in the graph, or a fault fired, "
            "or a pool schedule with pre-emptions; distinct = distinct digest of (event log, final broker, forced order, "
            "switch list)")

    def oracles(self, case, driver, r, m):
        return oracle_c01(case, driver, r)


class C02(EngineCheck):
    flavour = "C02"
    title = "A component fires exactly when its requirements are met; arguments bind in order"
    drivers = ["run", "run", "order", "order", "incr", "all"]
    quick = dict(runs=300000, wall=100)
    thorough = dict(runs=10000000, wall=1500)
    rule = ("case = generated program (all component types, groups sharing members, a dependency both required and optional, "
            "pre-seeded values, disabled components, apply_default_enabled/apply_configs with exact and prefix names) x "
            "outcome per component x serial driver; histories: a component body flips the enabled switch of a down-stream "
            "component while the evaluation runs (15%), the same broker evaluated twice with components switched on in "
            "between (fault-free programs), component objects that test False, the default group's own table as entry "
            "form; oracle = reference model of firing / positional binding / missing reports; non-trivial / distinct as for C01")

    def oracles(self, case, driver, r, m):
        return oracle_c02(case, driver, r, m)


class C03(EngineCheck):
    flavour = "C03"
    title = "A failing component affects only its dependents and is always accounted for"
    quick = dict(runs=300000, wall=100)
    thorough = dict(runs=10000000, wall=1500)
    rule = ("case = generated program x fault plan (deliberate skip, content error, failed command, timeout raised or delivered "
            "by the simulated alarm at a seeded instant, ValueError/KeyError/custom exception, exception with failing "
            "__str__, unhashable exception, ONE exception object raised by several components, per-element faults of multi-output "
            "parsers, failing observers; 0.04% chains of 300-700 stacked datasources on a failing one) x store_skips x "
            "debug logging x driver; oracle = reference model of values + attribution table + traceback presence + observer "
            "counts; non-trivial = at least one fault actually fired or several components; distinct = digest of event log + "
            "final broker")

    def oracles(self, case, driver, r, m):
        return oracle_c03(case, driver, r, m)


def gen_bundle(st, case):
    rs = st.sched
    bundle = [{"kind": "run"}]
    for _ in range(2):
        bundle.append({"kind": "order", "order_seed": rs.getrandbits(32)})
    bundle.append({"kind": "incr"})
    bundle.append({"kind": "all"})
    if fresh_brokers_ok(case):
        bundle.append({"kind": "incr_n"})
        bundle.append({"kind": "all_n"})
    for _ in range(2):
        bundle.append(gen_driver(st, case, "C04", ["pool"]))
    if rs.random() < 0.5:
        bundle.append({"kind": "run", "natural_hash": True})
    if not case.get("graph_drop"):
        # the same program entered through the other documented forms of the 'components' argument
        if case["targets"] is None and rs.random() < 0.35:
            bundle.append({"kind": "run", "entry": "group"})           # the default group's own table (dr.run() with no argument)
        if case["targets"] is None and case.get("pre_eval_group"):
            bundle.append({"kind": "run", "entry": "group_object"})
        if rs.random() < 0.2:
            bundle.append({"kind": rs.choice(["run", "incr", "all"]), "entry": "list"})
    return bundle


class C04(EngineCheck):
    flavour = "C04"
    title = "Evaluation results do not depend on scheduling"
    replicate = 1.0
    hashseed_is_property = True
    quick = dict(runs=25000, wall=100)
    thorough = dict(runs=800000, wall=1500)
    rule = ("case = generated program with deterministic bodies x bundle of drivers executed on the same program: dr.run (seeded "
            "tie-break), two forced linear extensions, run_incremental, run_all, the same two with a fresh broker per sub-graph, "
            "two SimPool schedules (pool size 1-4/unbounded, seeded walk or PCT), optionally dr.run with address-based hashes; "
            "every case is executed by two worker interpreters with different PYTHONHASHSEED and the final signatures compared; "
            "oracle = all broker signatures equal each other and the reference model, invocation counts equal and <= 1, real "
            "get_subgraphs output is an exact partition closed under edges; non-trivial = bundle contains a pool run with "
            "pre-emptions or several sub-graphs; distinct = digest of all event logs and switch lists")

    def generate(self, st, tier):
        case = gen_program(st, "C04", tier)
        for nd in case["nodes"]:
            if nd["out"] == "slow" and nd["work"] > (nd.get("timeout") or 120):
                nd["work"] = 1.0               # bodies are deterministic: no timer expiry in C04
            if nd["out"] in ("badstr", "unhash"):
                nd["out"] = "boom"
        bundle = gen_bundle(st, case)
        if case.get("sac"):
            # run_components is the low-level entry that does not do the hydrated-archive pruning of dr.run(): under a
            # SerializedArchiveContext it legitimately evaluates more, so it is not part of the comparison
            bundle = [d for d in bundle if d["kind"] != "order"]
        case["driver"] = {"kind": "bundle", "bundle": bundle}
        return case

    def execute(self, case):
        bundle = case["driver"]["bundle"]
        runs = []
        viols = []
        m = model(case)
        ms = _norm(model_signature(case, m))
        base = None
        base_calls = None
        sigs = []
        natural = False
        unrepro = []
        pinned_case = None
        for d in bundle:
            v_start = len(viols)
            pinned_here = None
            if d.get("natural_hash"):
                natural = True
                G.__hash__ = object.__hash__
                RegistryPoint.__hash__ = object.__hash__
            try:
                r = execute_once(case, d)
            finally:
                if d.get("natural_hash"):
                    G.__hash__ = _seeded_hash
                    RegistryPoint.__hash__ = _seeded_hash
            if d.get("natural_hash"):
                observed = [e[2] for e in r.ev if e[0] == "obs" and e[1] == "mon"]
                r.ev = sorted(r.ev, key=repr)          # order is address dependent by design; keep the multiset
                sg0 = _norm({"vals": r.sig["vals"], "excs": r.sig["excs"], "miss": r.sig["miss"]})
                if r.escaped is not None or sg0 != ms:
                    # not replayable as such: pin the order the engine happened to choose and force it under seeded hashes
                    pinned = {"kind": "order", "names": observed}
                    r2 = execute_once(case, pinned)
                    sg2 = _norm({"vals": r2.sig["vals"], "excs": r2.sig["excs"], "miss": r2.sig["miss"]})
                    if r2.escaped is not None or sg2 != ms:
                        d = dict(pinned, kind_label="natural-order-pinned")
                        r = r2
                        pinned_here = _copy(case)
                        pinned_here["driver"] = {"kind": "bundle", "bundle": [{"kind": "run"}, dict(pinned, kind_label="natural-order-pinned")]}
                    else:
                        unrepro.append(observed)
                        continue
            runs.append(r)
            klabel = d.get("kind_label", d["kind"])
            label = klabel + ("/natural" if d.get("natural_hash") else "")
            if r.escaped is not None:
                viols.append(V("C04.escape", "escape:%s:%s" % (klabel, type(r.escaped).__name__), "driver %s raised %r" % (label, r.escaped)))
                if pinned_here is not None:
                    viols[-1]["replay_case"] = pinned_here
                continue
            if getattr(r, "pending_at_return", 0):
                viols.append(V("C04.completion", "run_all-returned-before-its-sub-graphs-finished:%s" % klabel,
                               "%d pool task(s) were still running when run_all returned: what the caller reads then depends on the schedule" % r.pending_at_return))
            sg = _norm({"vals": r.sig["vals"], "excs": r.sig["excs"], "miss": r.sig["miss"]})
            sigs.append(sg)
            if r.sig["conflicts"]:
                viols.append(V("C04.signature", "sub-graph-brokers-disagree:%s" % klabel, "%s" % (r.sig["conflicts"],)))
            if sg != ms:
                diff = _sigdiff(sg, ms)
                viols.append(V("C04.signature", "differs-from-model:%s" % klabel,
                               "driver %s: %s (forced order %s)" % (label, diff, r.forced_order)))
            if base is None:
                base = sg
            elif sg != base:
                viols.append(V("C04.signature", "differs-between-drivers:%s" % klabel,
                               "driver %s vs dr.run: %s" % (label, _sigdiff(sg, base))))
            calls = dict((k, len(v)) for k, v in calls_from_events(r.ev).items())
            nb = node_by_name(case)
            for k, n in calls.items():
                if n > 1 and nb[k]["type"] != "parser":
                    viols.append(V("C04.counts", "invoked-twice:%s" % klabel, "%s invoked %d times under %s" % (k, n, label)))
            if base_calls is None:
                base_calls = calls
            elif calls != base_calls:
                viols.append(V("C04.counts", "invocation-counts-differ:%s" % klabel, "%s: %s vs dr.run %s" % (label, calls, base_calls)))
            if pinned_here is not None:
                for v in viols[v_start:]:
                    v["replay_case"] = pinned_here
        viols.extend(oracle_partition(case, runs[0]))
        res = self.result(case, runs, viols)
        if unrepro:
            res["stats"]["probes"]["address_order_mismatch_not_reproduced_by_pinned_order"] = len(unrepro)
        for d in bundle:
            k = d["kind"] + ("_natural" if d.get("natural_hash") else "")
            res["stats"]["drivers"][k] = res["stats"]["drivers"].get(k, 0) + 1
        res["stats"]["drivers"].pop("bundle", None)
        res["sig"] = digest(sigs)
        if natural:
            res["digest"] = digest([res["sig"], sorted(repr(x) for x in case["nodes"])])
        return res

    def shrink(self, case):
        bundle = case["driver"]["bundle"]
        if len(bundle) > 1:
            for k in range(len(bundle)):
                c = _copy(case)
                del c["driver"]["bundle"][k]
                yield c
        for k, d in enumerate(bundle):
            if d["kind"] == "pool" and d["sched"]["kind"] != "replay":
                r = execute_once(case, d)
                if r.pool is not None:
                    c = _copy(case)
                    c["driver"]["bundle"][k]["sched"] = {"kind": "replay", "switches": [list(x) for x in r.pool.switches],
                                                         "opcode": bool(d["sched"].get("opcode"))}
                    yield c
            for d2 in shrink_driver(d):
                if d2["kind"] == "run" and d["kind"] != "pool":
                    continue
                c = _copy(case)
                c["driver"]["bundle"][k] = d2
                yield c
        for c in shrink_program(case):
            yield c


def _sigdiff(a, b):
    out = []
    for part in ("vals", "miss"):
        for k in sorted(set(a[part]) | set(b[part])):
            if a[part].get(k, ABSENT) != b[part].get(k, ABSENT):
                out.append("%s[%s]: %s != %s" % (part, k, a[part].get(k, ABSENT), b[part].get(k, ABSENT)))
    if a["excs"] != b["excs"]:
        out.append("excs: %s != %s" % ([x for x in a["excs"] if x not in b["excs"]], [x for x in b["excs"] if x not in a["excs"]]))
    return "; ".join(out)[:1500]


_seeded_hash = G.__dict__["__hash__"]


def get_check(prop):
    return {"C01": C01, "C02": C02, "C03": C03, "C04": C04}[prop](prop)
