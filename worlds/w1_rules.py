"""World W1r -- rule outcome accounting (C12): generated rule sets under the real evaluators / formatters.

Programs are W1 programs whose rules carry a rich return plan (every response class, None, non-Response,
rejected constructor arguments, payloads around the size limit) and share modules, keys and types on purpose.
Drivers are the real SingleEvaluator / InsightsEvaluator / JsonFormat, serial, incremental and incremental on a
SimPool (``insights.get_pool`` is the seam).  The oracle is a counting argument over the evaluator's response.
"""
import io
import json
import random
from contextlib import contextmanager
from datetime import datetime as _real_datetime

from simkit import HarnessError
from simkit import registry
from simkit.seeds import digest
from simkit.simpool import SimPool

from worlds import w1_engine as w1
from worlds.w1_engine import V, _copy, _norm

import insights
from insights.core import dr, plugins, evaluators
from insights.core.context import ExecutionContext
from insights import formats
from insights.formats import _json as json_format

TRACED = w1.TRACED_FILES + (evaluators.__file__, formats.__file__, json_format.__file__)

KEYS = ["KEY_A", "KEY_B", "KEY_C"]
HEADING = {"rule": "reports", "fingerprint": "fingerprints", "pass": "pass", "info": "info", "none": "none"}


class FakeDatetime(object):
    """datetime seam of evaluators / formats: now() reads the simulated clock."""
    clock = None

    @classmethod
    def now(cls, tz=None):
        return _real_datetime.fromtimestamp(cls.clock.now, tz)


def gen_rspec(rng, frng, name):
    r = frng.random()
    cls = rng.choice(["pass", "fail", "info", "fingerprint", "response"])
    rs = {"cls": cls, "key": rng.choice(KEYS), "kind": "typed"}
    if r < 0.45:
        rs["kind"] = "typed"
        if rng.random() < 0.2:
            rs["payload"] = rng.choice([1, 10, 200])
    elif r < 0.53:
        rs["kind"] = "metadata"
    elif r < 0.58:
        rs["kind"] = "metadata_key"
        rs["key"] = "MK_" + name.upper()
        if frng.random() < 0.25:
            rs["key"] = rng.choice(["pass", "info", "none", "reports", "skips", "system", "fingerprints"])     # a section's name
    elif r < 0.68:
        rs["kind"] = "none"
    elif r < 0.74:
        rs["kind"] = "nonresponse"
        rs["dictlike"] = rng.random() < 0.5
    elif r < 0.88:
        rs["kind"] = "big"
        rs["delta"] = rng.choice([-2, -1, 0, 1, 2, 60])
    else:
        rs["kind"] = rng.choice(["badkey_none", "badkey_empty", "badkey_int", "badkey_bytes", "reserved_type",
                                 "reserved_key", "metadata_reserved"])
    if rs["kind"] in ("typed", "big") and frng.random() < 0.3:
        # argument names a rule author may well pick -- among them the attribute names of a logging.LogRecord, the
        # parameter names of Response.__init__'s callers and of the formatters
        names = ["name", "module", "filename", "message", "process", "thread", "args", "msg", "lineno", "levelname", "exc_info",
                 "created", "funcName", "pathname", "kwargs", "component", "rule_fqdn", "tags", "links", "details", "max_detail_length"]
        rs["xname"] = frng.choice(names)
        if rs["kind"] == "big" and frng.random() < 0.5:
            rs["xname"], rs["xname2"] = "x", frng.choice(names)
    # a content template of the rule (only looked at when a formatter renders content)
    rs["content"] = rng.choice([None, None, None, None, "static text", "{{ d }} ok", "{{ d + 1 }}", "{% if d %}unterminated",
                                {"KEY_A": "{{ d }}", "KEY_B": 5}, "{{ nosuchname.attr }}"])
    rs["tags"] = rng.choice([None, [], ["t1"], ["t1", "t2"], ["security", "t2", "kernel"]])
    rs["links"] = rng.choice([None, None, {}, {"kcs": ["https://example.test/1"]},
                              {"kcs": ["https://example.test/1", "https://example.test/2"], "jira": ["X-1"]}])
    return rs


def gen_case(st, tier):
    case = w1.gen_program(st, "C12", tier)
    rp, rf, rk = st.prog, st.fault, st.knob
    nodes = case["nodes"]
    # add rules as leaves so that every case has several, sharing modules / keys / types
    extra = rp.choice([1, 2, 2, 3, 4, 6])
    for _ in range(extra):
        i = len(nodes)
        prev = list(range(i))
        nd = {"name": "c%02d" % i, "type": "rule", "h": rp.getrandbits(40), "req": [], "groups": [], "opt": [],
              "enabled": rk.random() > 0.07, "out": "value", "work": 0.0}
        nd["req"] = rp.sample(prev, min(len(prev), rp.choice([0, 1, 1, 2])))
        if prev and rp.random() < 0.4:
            nd["groups"].append(rp.sample(prev, rp.randint(1, min(3, len(prev)))))
            nd["gpos"] = [rp.randint(0, len(nd["req"]))]
        if prev and rp.random() < 0.3:
            nd["opt"] = rp.sample(prev, 1)
        r = rf.random()
        if r < 0.08:
            nd["out"] = "skip"
        elif r < 0.14:
            nd["out"] = rf.choice(["boom", "verr", "kerr"])
        elif r < 0.18:
            nd["out"] = rf.choice(["ce", "cpe"])
        nodes.append(nd)
    for nd in nodes:
        if nd["type"] == "rule":
            nd["rspec"] = gen_rspec(rp, rf, nd["name"])
            nd["module"] = rp.choice(["vgen", "vgen2"])
            nd.pop("resp", None)
    case["seeded"] = [i for i in case["seeded"] if nodes[i]["type"] != "rule"]
    case["seed_none"] = [i for i in case.get("seed_none") or [] if i in case["seeded"]]
    case["max_detail_length"] = rk.choice([1000, 1000, 4000, 65535])
    case["store_skips"] = False
    case["targets"] = None
    case["graph_drop"] = []
    case["ctx_in_broker"] = rk.random() < 0.5
    case["evaluator_hash"] = rk.getrandbits(40)
    rs = st.sched
    ev = rk.choice(["single", "single", "insights", "json", "json"])
    d = {"kind": "eval", "evaluator": ev}
    if ev == "json":
        d["missing"] = rk.random() < 0.5
        d["render_content"] = rk.random() < 0.3
        d["show_rules"] = rk.choice([None, None, ["rule"], ["rule", "pass", "info"], ["none", "metadata", "fingerprint"],
                                     ["rule", "pass", "info", "none", "metadata", "fingerprint"]])
    mode = rs.choice(["serial", "incr", "pool", "pool"])
    d["mode"] = mode
    if mode == "pool":
        d["workers"] = rs.choice([1, 2, 2, 3, 4, 0])
        if rs.random() < 0.7:
            d["sched"] = {"kind": "walk", "p": rs.choice([0.02, 0.05, 0.1, 0.2, 0.3]), "seed": rs.getrandbits(32)}
        else:
            d["sched"] = {"kind": "pct", "depth": rs.choice([1, 2, 3]), "horizon": rs.choice([100, 400, 1500]),
                          "seed": rs.getrandbits(32)}
        if rs.random() < 0.35:
            d["sched"]["opcode"] = True          # pre-emption between two bytecodes of a line
            if d["sched"]["kind"] == "walk":
                d["sched"]["p"] = rs.choice([0.01, 0.03, 0.08])
            else:
                d["sched"]["horizon"] *= 6
    case["driver"] = d
    if ev == "insights" and rk.random() < 0.5:
        # the system facts InsightsEvaluator picks up from the broker on the way (machine id, release): present and
        # readable, empty, unreadable (the lazy read raises), or not text -- none of which is any rule's business
        case["sysfacts"] = {"machine_id": rk.choice(["ok", "empty", "raises", "nonstr", None]),
                            "release": rk.choice(["ok", "raises", None, None])}
    if rk.random() < 0.2:
        # a long-lived process: the rules were evaluated (and reported) once already, then configuration gave some of
        # them other tags (insights.apply_configs, which runs before every insights.run / collect / shell evaluation)
        rules = [i for i, nd in enumerate(nodes) if nd["type"] == "rule"]
        case["retag"] = [{"node": i, "tags": rk.choice([[], ["cfg"], ["cfg", "t1"], ["security"]])}
                         for i in rules if rk.random() < 0.5]
    return case


class Result(object):
    pass


class FactProvider(object):
    """Stand-in for the content provider of a system-fact spec (Specs.machine_id, Specs.redhat_release)."""

    def __init__(self, kind, text):
        self.kind = kind
        self.text = text

    @property
    def content(self):
        if self.kind == "raises":
            from insights.core.exceptions import ContentException
            raise ContentException("cannot read %s" % self.text)
        if self.kind == "empty":
            return []
        if self.kind == "nonstr":
            return [5]
        return [self.text + "\n"]


class SeededObserver(object):
    """The evaluator registers its bound method ``self.observer`` in a *set* of observers; a bound method hashes by
    address, which would leave the firing order to the allocator.  This wrapper gives it a seeded hash and calls the
    real method."""
    _verif_generated = True

    def __init__(self, fn, h):
        self.fn = fn
        self._h = h

    def __hash__(self):
        return self._h

    def __eq__(self, o):
        return self is o

    def __call__(self, comp, broker):
        return self.fn(comp, broker)


def run_eval(case):
    driver = case["driver"]
    world = w1.World(case)
    res = Result()
    with registry.scope():
        with w1.Patches(world, case.get("debug_log")) as patches:
            saved = (evaluators.datetime, formats.datetime, insights.get_pool)
            FakeDatetime.clock = world.clock
            evaluators.datetime = FakeDatetime
            formats.datetime = FakeDatetime
            pools = []

            the_pool = None
            if driver["mode"] == "pool":
                sched = dict(driver["sched"])
                the_pool = SimPool(random.Random(sched.get("seed", 0)), max_workers=driver.get("workers", 2), policy=sched,
                                   traced_files=TRACED,
                                   opcode_files=((evaluators.__file__, dr.__file__, plugins.__file__) if sched.get("opcode") else ()),
                                   max_steps=80000 if sched.get("opcode") else 20000)
                pools.append(the_pool)

            @contextmanager
            def fake_pool(parallel, prefix, kwargs):
                if not parallel:
                    yield None
                    return
                try:
                    yield the_pool
                finally:
                    the_pool.shutdown()
            insights.get_pool = fake_pool
            try:
                world.make_observers()
                world.build()
                graph = world.graph()
                ev = driver["evaluator"]
                mode = driver["mode"]
                if case.get("retag") is not None:
                    # first evaluation (serial, same evaluator class, its own broker), then the configuration change
                    b0 = world.new_broker()
                    s0 = io.StringIO()
                    try:
                        if ev in ("single", "insights"):
                            e0 = (evaluators.SingleEvaluator if ev == "single" else evaluators.InsightsEvaluator)(b0, stream=s0)
                            e0.observer = SeededObserver(e0.observer, case.get("evaluator_hash", 7))
                            e0.process(graph)
                        else:
                            e0 = json_format.JsonFormat(b0, missing=True, render_content=driver.get("render_content", False), stream=s0)
                            e0.observer = SeededObserver(e0.observer, case.get("evaluator_hash", 7))
                            e0.preprocess()
                            dr.run(graph, broker=b0)
                            e0.postprocess()
                    except HarnessError:
                        raise
                    except Exception:
                        pass                 # whatever escapes here escapes from the evaluation under test as well
                    en = w1.enabled_map(case)
                    insights.apply_configs({"configs": [{"name": dr.get_name(world.objs[rt["node"]]), "enabled": en[rt["node"]],
                                                         "tags": list(rt["tags"])} for rt in case["retag"]]})
                    del world.ev[:]
                    world.faults_fired.clear()
                    world.fired("evaluated_before_and_retagged")
                broker = world.new_broker()
                if case.get("ctx_in_broker"):
                    broker[ExecutionContext] = ExecutionContext()
                sf_ = case.get("sysfacts") or {}
                if sf_.get("machine_id"):
                    from insights.specs import Specs
                    broker[Specs.machine_id] = FactProvider(sf_["machine_id"], "7f1c2e0a-machine")
                    world.fired("system_fact_" + sf_["machine_id"])
                if sf_.get("release"):
                    from insights.specs import Specs
                    broker[Specs.redhat_release] = FactProvider(sf_["release"], "Red Hat Enterprise Linux release 9.4 (Plow)")
                stream = io.StringIO()
                res.escaped = None
                res.response = None
                if the_pool is not None:
                    the_pool.trace_main_now()          # every frame of the evaluator is created under the tracer
                try:
                    if ev in ("single", "insights"):
                        cls = evaluators.SingleEvaluator if ev == "single" else evaluators.InsightsEvaluator
                        e = cls(broker, stream=stream, incremental=mode != "serial")
                        e.observer = SeededObserver(e.observer, case.get("evaluator_hash", 7))
                        res.response = e.process(graph, parallel=(mode == "pool"))
                    else:
                        # the adapter's life cycle: preprocess -> engine run (as insights._run does) -> postprocess
                        e = json_format.JsonFormat(broker, missing=driver.get("missing", False),
                                                   render_content=driver.get("render_content", False),
                                                   show_rules=driver.get("show_rules"), stream=stream)
                        e.observer = SeededObserver(e.observer, case.get("evaluator_hash", 7))
                        e.preprocess()
                        if mode == "serial":
                            dr.run(graph, broker=broker)
                        elif mode == "incr":
                            dr.run_all(graph, broker, None)
                        else:
                            with insights.get_pool(True, "insights-run-pool", {"max_workers": None}) as pool:
                                dr.run_all(graph, broker, pool)
                        e.postprocess()
                        res.response = json.loads(stream.getvalue())
                except (HarnessError,):
                    raise
                except Exception as ex:
                    res.escaped = ex
                finally:
                    if the_pool is not None:
                        the_pool.shutdown()
                res.sig = w1.broker_signature(world, [broker])
                res.ev = list(world.ev)
                res.pool = pools[0] if pools else None
                res.clock = world.clock
                res.signal = patches.sig
                res.faults_fired = world.faults_fired
                res.names = dict((nd["name"], dr.get_name(world.objs[i])) for i, nd in enumerate(case["nodes"]))
            finally:
                evaluators.datetime, formats.datetime, insights.get_pool = saved
    return res


def expected_buckets(case, m):
    """rule name -> ("typed", type, key, items) | ("skip", (mreq, mgrp)) | ("exception", kind) | ("nothing",)
                   | ("metadata", items) | ("metadata_key", key, value)"""
    nodes = case["nodes"]
    ing = w1.graph_nodes(case)
    en = w1.enabled_map(case)
    out = {}
    excs = {}
    for target, kind, tag in m["exc"]:
        excs.setdefault(target, []).append(kind)
    for i, nd in enumerate(nodes):
        if nd["type"] != "rule" or i not in ing:
            continue
        name = nd["name"]
        if not en[i]:
            out[name] = ("nothing", "disabled")
            continue
        v = m["val"].get(i, w1.ABSENT)
        if v == w1.ABSENT:
            ks = [k for k in excs.get(name, []) if k != "skip"]
            if ks:
                out[name] = ("exception", sorted(ks))
            else:
                out[name] = ("nothing", "skipped")
        elif v[0] == "skipresp":
            out[name] = ("skip", v[1])
        elif v[0] == "resp":
            if v[1] == "metadata":
                out[name] = ("metadata", v[3])
            elif v[1] == "metadata_key":
                out[name] = ("metadata_key", v[2], v[3])
            else:
                out[name] = ("typed", v[1], v[2], v[3])
        else:
            raise HarnessError("unexpected model value for rule %s: %r" % (name, v))
    return out


def oracle_c12(case, res, m):
    out = []
    driver = case["driver"]
    if res.escaped is not None:
        out.append(V("C12.escape", "escape:%s:%s" % (driver["evaluator"], type(res.escaped).__name__),
                     "evaluator raised %r" % (res.escaped,)))
        return out
    nodes = case["nodes"]
    nb = w1.node_by_name(case)
    exp = expected_buckets(case, m)
    resp = res.response
    fq = res.names
    inv = dict((v, k) for k, v in fq.items())
    show = driver.get("show_rules") if driver["evaluator"] == "json" else "ALL"
    missing_flag = driver.get("missing", False) if driver["evaluator"] == "json" else True

    def shown(type_):
        if show == "ALL":
            return True
        if not show:
            return type_ != "none"
        return type_ in show

    # ---- collect what is reported, per rule
    got = {}
    for type_, heading in HEADING.items():
        entries = resp.get(heading)
        if entries is None:
            if shown(type_) and any(e[0] == "typed" and e[1] == type_ for e in exp.values()):
                out.append(V("C12.accounting", "heading-missing:%s" % heading, "heading %s absent although rules of type %s reported" % (heading, type_)))
            continue
        if not isinstance(entries, list):
            # a rule's metadata key of that very name sits where the section belongs
            if shown(type_) and any(e[0] == "typed" and e[1] == type_ for e in exp.values()):
                out.append(V("C12.accounting", "section-replaced-by-metadata-key:%s" % heading,
                             "rules of type %s reported, but the response holds %r under %r" % (type_, entries, heading)))
            continue
        if not shown(type_):
            if entries:
                out.append(V("C12.formatter", "heading-not-filtered:%s" % heading, "heading %s present although not selected by show_rules=%s" % (heading, show)))
            continue
        for e in entries:
            comp = e.get("component")
            name = inv.get(comp)
            if name is None:
                out.append(V("C12.accounting", "entry-for-unknown-component", "entry under %s names %r" % (heading, comp)))
                continue
            got.setdefault(name, []).append((type_, e))
    skips = resp.get("skips")
    got_skips = {}
    if skips is not None:
        for s_ in skips:
            name = inv.get(s_.get("rule_fqdn"))
            if name is None:
                out.append(V("C12.accounting", "skip-for-unknown-component", "skip entry names %r" % (s_.get("rule_fqdn"),)))
                continue
            got_skips.setdefault(name, []).append(s_)
    elif missing_flag:
        out.append(V("C12.accounting", "skips-heading-missing", "no 'skips' in the response"))
    if skips is not None and not missing_flag:
        out.append(V("C12.formatter", "skips-not-filtered", "'skips' present although missing=False"))
    known_top = set(HEADING.values()) | set(["system", "skips", "analysis_metadata"])
    known_top |= set(e[1] for e in exp.values() if e[0] == "metadata_key")
    for k, v in resp.items():
        if k not in known_top:
            out.append(V("C12.accounting", "unexpected-heading", "response has an unexpected top-level entry %r: %r" % (k, str(v)[:200])))
    md = (resp.get("system") or {}).get("metadata")
    # ---- per rule: exactly one bucket, the predicted one
    for name in sorted(exp):
        e = exp[name]
        typed = got.get(name, [])
        sk = got_skips.get(name, [])
        excs = [x for x in res.sig["excs"] if x[0] == name and x[1] != "skip"]
        nd = nb[name]
        kindlabel = nd["rspec"]["kind"] if nd["out"] == "value" else nd["out"]
        where = []
        where += ["%s-entry" % t for t, _ in typed]
        where += ["skip-entry"] * len(sk)
        where += ["exception:%s" % x[1] for x in excs]
        if e[0] == "typed":
            if not shown(e[1]):
                want = []
            else:
                want = ["%s-entry" % e[1]]
        elif e[0] == "skip":
            want = ["skip-entry"] if missing_flag else []
        elif e[0] == "exception":
            want = ["exception:%s" % k for k in e[1]]
        else:
            want = []
        if sorted(where) != sorted(want):
            if len(where) < len(want):
                cls = "lost"
            elif len(where) > len(want):
                cls = "duplicated-or-unexpected"
            else:
                cls = "wrong-bucket"
            out.append(V("C12.accounting", "%s:%s:%s" % (cls, e[0], kindlabel if e[0] in ("exception", "typed") else e[0]),
                         "rule %s (%s, mode %s/%s): found in %s, expected %s" % (name, kindlabel, driver["evaluator"], driver["mode"], where, want)))
            continue
        if e[0] == "typed" and want:
            type_, entry = typed[0]
            key = e[2]
            problems = []
            if entry.get("key") != key:
                problems.append("key %r != %r" % (entry.get("key"), key))
            if entry.get("type") != e[1]:
                problems.append("type %r != %r" % (entry.get("type"), e[1]))
            rid = {"rule": "rule_id", "pass": "pass_id", "info": "info_id", "fingerprint": "fingerprint_id", "none": "none_id"}[e[1]]
            want_id = "%s|%s" % (nd.get("module", w1.MODNAME), key)
            if entry.get(rid) != want_id:
                problems.append("%s %r != %r" % (rid, entry.get(rid), want_id))
            want_tags = set(nd["rspec"].get("tags") or [])
            for rt in case.get("retag") or []:
                if case["nodes"][rt["node"]]["name"] == name:
                    want_tags = set(rt["tags"])
            if set(entry.get("tags", ["<none>"])) != want_tags or len(entry.get("tags", [])) != len(want_tags):
                problems.append("tags %r != %r" % (entry.get("tags"), sorted(want_tags)))
            want_links = nd["rspec"].get("links") or {}
            if entry.get("links") != want_links:
                problems.append("links %r != %r" % (entry.get("links"), want_links))
            det = entry.get("details")
            if not isinstance(det, dict):
                problems.append("details is %r" % type(det).__name__)
            else:
                items = tuple(sorted((k, repr(v)) for k, v in det.items()
                                     if k not in ("type", "error_key", "pass_key", "info_key", "fingerprint_key", "none_key")))
                if _norm(items) != _norm(e[3]):
                    problems.append("details %r != %r" % (items[:3], e[3][:3]))
                if det.get("type") != e[1]:
                    problems.append("details.type %r" % det.get("type"))
                if "max_detail_length_error" in det and set(det) - set(["type", "max_detail_length_error", "error_key", "pass_key", "info_key", "fingerprint_key"]):
                    problems.append("stub keeps more than type, key and length: %s" % sorted(det))
            if problems:
                out.append(V("C12.entry", "malformed-entry:%s:%s" % (e[1], problems[0].split(" ")[0]),
                             "rule %s (%s): %s" % (name, kindlabel, "; ".join(problems))))
        elif e[0] == "skip" and want:
            s_ = sk[0]
            details = s_.get("details", "")
            mreq, mgrp = e[1]
            named = set(mreq) | set(x for g in mgrp for x in g)
            for dn in sorted(named):
                if fq.get(dn, "vgen." + dn) not in details:
                    out.append(V("C12.entry", "skip-entry-omits-dependency", "rule %s: missing dependency %s not named in %r" % (name, dn, details)))
                    break
            for j in w1.dep_set(nd):
                dn = nodes[j]["name"]
                if dn not in named and fq[dn] in details and j not in nd["opt"]:
                    out.append(V("C12.entry", "skip-entry-names-satisfied-dependency", "rule %s: %s is not missing but named in %r" % (name, dn, details)))
                    break
            if s_.get("type") != "skip":
                out.append(V("C12.entry", "skip-entry-type", "rule %s: %r" % (name, s_.get("type"))))
        elif e[0] == "metadata":
            if show == "ALL" or not show or "metadata" in show:
                for k, v in e[1]:
                    if md is None or repr(md.get(k)) != v:
                        out.append(V("C12.accounting", "lost:metadata", "rule %s: metadata %s=%s not in system.metadata %r" % (name, k, v, md)))
        elif e[0] == "metadata_key":
            if repr(resp.get(e[1])) != e[2][0][1]:
                reserved = e[1] in set(HEADING.values()) | set(["system", "skips", "analysis_metadata"])
                out.append(V("C12.accounting", "lost:metadata_key" + (":key-is-a-section-name" if reserved else ""),
                             "rule %s: top-level %s is %r, expected %s" % (name, e[1], resp.get(e[1]), e[2][0][1])))
    # ---- totals
    n_typed = sum(len(v) for v in got.values())
    want_typed = sum(1 for e in exp.values() if e[0] == "typed" and shown(e[1]))
    if n_typed != want_typed:
        out.append(V("C12.accounting", "total-entries", "%d entries reported, %d rules predicted to report" % (n_typed, want_typed)))
    if missing_flag and skips is not None and len(skips) != sum(1 for e in exp.values() if e[0] == "skip"):
        out.append(V("C12.accounting", "total-skips", "%d skip entries, %d predicted" % (len(skips), sum(1 for e in exp.values() if e[0] == "skip"))))
    return out


def shrink_rspec(case):
    for k, nd in enumerate(case["nodes"]):
        rs = nd.get("rspec")
        if not rs:
            continue
        if rs["kind"] != "typed" or rs.get("payload"):
            c = _copy(case)
            c["nodes"][k]["rspec"] = {"cls": "pass", "key": rs["key"], "kind": "typed", "tags": rs.get("tags"), "links": rs.get("links")}
            yield c
        if rs.get("tags"):
            c = _copy(case)
            c["nodes"][k]["rspec"]["tags"] = None
            yield c
        if rs.get("links"):
            c = _copy(case)
            c["nodes"][k]["rspec"]["links"] = None
            yield c
        if nd.get("module") != "vgen":
            c = _copy(case)
            c["nodes"][k]["module"] = "vgen"
            yield c


class C12(w1.EngineCheck):
    flavour = "C12"
    title = "Every evaluated rule yields exactly one well-formed, accounted outcome"
    quick = dict(runs=150000, wall=100)
    thorough = dict(runs=5000000, wall=1500)
    rule = ("case = generated program whose 1-8+ rules share two modules, three keys and all response types, with every "
            "return kind (make_pass/fail/info/fingerprint/response/metadata/metadata_key, None, non-Response, key None/''/int/"
            "bytes, reserved kwarg names, payload at limit-2..limit+60 for limits 1000/4000/65535) and dependency situation "
            "(met, missing required, unsatisfied group, dependency failed/skipped, rule disabled, rule skipping, rule raising) x "
            "evaluator (SingleEvaluator, InsightsEvaluator, JsonFormat with every missing/show_rules/render_content setting; rules "
            "carry content templates that render, fail to render, or are dictionaries; metadata keys named like response sections; "
            "system facts (machine id, release) in InsightsEvaluator's broker readable / empty / unreadable / not text) x 20% "
            "histories (evaluate, re-tag "
            "through apply_configs, evaluate again) x mode (serial, "
            "incremental, incremental on SimPool with seeded walk/PCT schedule); oracle = each rule in exactly the predicted "
            "bucket, entry fields, totals; non-trivial / distinct as in W1")
    real_vs_stub = dict(w1.COMMON_REAL)
    real_vs_stub.update({
        "insights.core.evaluators.SingleEvaluator / InsightsEvaluator": "real",
        "insights.formats._json.JsonFormat + get_response_of_types": "real",
        "insights.get_pool": "seam: yields SimPool instead of ThreadPoolExecutor",
        "datetime seen by evaluators/formats": "reads SimClock",
    })
    assumptions = w1.COMMON_ASSUMPTIONS + [
        "metadata and metadata_key rules use names unique to the rule (two rules writing the same metadata name merge by design)",
        "the size limit is never below 1000, so the automatic skip response is not itself truncated",
        "thread interleavings also traced in evaluators.py, formats/__init__.py and formats/_json.py",
    ]

    def generate(self, st, tier):
        return gen_case(st, tier)

    def execute(self, case):
        res = run_eval(case)
        m = w1.model(case, pool_thread=case["driver"]["mode"] == "pool")
        viols = oracle_c12(case, res, m)
        r = res
        r.forced_order = None
        r.subgraphs = ()
        r.graph_names = [nd["name"] for nd in case["nodes"]]
        out = self.result(case, [r], viols)
        out["stats"]["drivers"] = {"%s/%s" % (case["driver"]["evaluator"], case["driver"]["mode"]): 1}
        kinds = {}
        for nd in case["nodes"]:
            if nd.get("rspec"):
                k = nd["rspec"]["kind"] if nd["out"] == "value" else "out_" + nd["out"]
                kinds[k] = kinds.get(k, 0) + 1
        out["stats"]["rule_plans"] = kinds
        return out

    def shrink(self, case):
        d = case["driver"]
        if d["mode"] == "pool" and d["sched"]["kind"] != "replay":
            res = run_eval(case)
            if res.pool is not None:
                c = _copy(case)
                c["driver"]["sched"] = {"kind": "replay", "switches": [list(x) for x in res.pool.switches],
                                        "opcode": bool(d["sched"].get("opcode"))}
                yield c
        if d["mode"] == "pool":
            c = _copy(case)
            c["driver"] = dict(d, mode="incr")
            yield c
            if d["sched"]["kind"] == "replay":
                sw = d["sched"]["switches"]
                n = len(sw)
                chunk = n // 2
                while chunk >= 1:
                    for a in range(0, n, chunk):
                        c = _copy(case)
                        c["driver"]["sched"] = {"kind": "replay", "switches": sw[:a] + sw[a + chunk:], "opcode": bool(d["sched"].get("opcode"))}
                        yield c
                    chunk //= 2
        elif d["mode"] == "incr":
            c = _copy(case)
            c["driver"] = dict(d, mode="serial")
            yield c
        if d["evaluator"] != "single":
            c = _copy(case)
            c["driver"] = dict(d, evaluator="single")
            yield c
        for c in w1.shrink_program(case):
            yield c
        for c in shrink_rspec(case):
            yield c
        if case.get("ctx_in_broker"):
            c = _copy(case)
            c["ctx_in_broker"] = False
            yield c


def get_check(prop):
    return C12(prop)
