"""World W5 -- the client's state directory over histories of runs (C17).

A case is an initial state of the two configuration directories (absent / empty / markers / identifier
file in several notations / symlinks planted at marker locations) and a history of operations:
identifier reads, forced regenerations, register / unregister / marker deletions, environment events
between operations (external deletion, planted symlinks, directory removed or recreated, subscription
identity appearing or disappearing) and injected I/O faults (the n-th write-open / remove of an operation
fails with ENOSPC / EIO / EACCES / EROFS / EDQUOT / EPERM).  The real helpers of insights.client.utilities run against a real scratch
directory; uuid, clock and the subscription-manager peer are simulated; an audit-hook monitor records every
write-open so "an existing identifier file is never rewritten by a read" is observed, not inferred.
"""
import errno
import os
import random
import shutil
import tempfile
import uuid as _uuid

from simkit import bootstrap, HarnessError

bootstrap()

from simkit.iomon import Monitor, Fault          # noqa: E402
from simkit.runner import Check                  # noqa: E402
from simkit.seeds import digest                  # noqa: E402
from simkit.simclock import SimClock             # noqa: E402

import insights.client.utilities as U            # noqa: E402
from insights.client.constants import InsightsConstants as constants   # noqa: E402

MARKERS = [".registered", ".unregistered"]
ID_KINDS = ["canonical", "canonical", "legacy", "upper", "newline", "padded", "empty", "garbage", "nonv4", "blank", "unidigits"]
ERRNOS = {"ENOSPC": errno.ENOSPC, "EIO": errno.EIO, "EACCES": errno.EACCES, "EROFS": errno.EROFS, "EDQUOT": errno.EDQUOT,
          "EPERM": errno.EPERM}


_BASE = [None]


def _scratch_base():
    """A private directory per worker process (a shared parent serialises every create/unlink on its lock)."""
    if _BASE[0] is None or not os.path.isdir(_BASE[0]):
        from simkit.runner import scratch_base
        _BASE[0] = scratch_base()
    return _BASE[0]


class SeededUuid(object):
    """Stand-in for the ``uuid`` module inside utilities: uuid4() is drawn from the case's seed."""
    UUID = _uuid.UUID

    def __init__(self, seed):
        self.rng = random.Random(seed)
        self.issued = []

    def uuid4(self):
        u = _uuid.UUID(int=self.rng.getrandbits(128), version=4)
        self.issued.append(str(u))
        return u


def id_text(kind, rng_seed):
    u = _uuid.UUID(int=random.Random(rng_seed).getrandbits(128), version=4)
    if kind == "canonical":
        return str(u)
    if kind == "legacy":
        return u.hex
    if kind == "upper":
        return str(u).upper()
    if kind == "newline":
        return str(u) + "\n"
    if kind == "padded":
        return "  " + str(u) + " \n"
    if kind == "empty":
        return ""
    if kind == "blank":
        return " \n"
    if kind == "unidigits":
        # canonical layout, but some of the decimal digits are another script's (int(x, 16), hence uuid.UUID, takes them)
        r = random.Random(rng_seed + 1)
        alt = r.choice(["\u0660\u0661\u0662\u0663\u0664\u0665\u0666\u0667\u0668\u0669", "\uff10\uff11\uff12\uff13\uff14\uff15\uff16\uff17\uff18\uff19",
                        "\u0966\u0967\u0968\u0969\u096a\u096b\u096c\u096d\u096e\u096f"])
        t = str(u)
        return "".join((alt[int(ch)] if ch.isdigit() and k not in (14, 19) and r.random() < 0.6 else ch) for k, ch in enumerate(t))
    if kind == "garbage":
        return "not-a-uuid-%d" % (rng_seed % 97)
    if kind == "nonv4":
        return str(_uuid.UUID(int=random.Random(rng_seed).getrandbits(128), version=1))
    raise HarnessError("id kind %r" % kind)


def gen_case(st, tier):
    rp, rf, rk = st.prog, st.fault, st.knob
    dirs = []
    for d in range(2):
        state = rp.choice(["present"] * 9 + ["absent"]) if d == 0 else rp.choice(["present", "absent", "absent"])
        files = {}
        if state == "present":
            for m in MARKERS:
                r = rp.random()
                if r < 0.3:
                    files[m] = "file"
                elif r < 0.42:
                    files[m] = rp.choice(["link_file", "link_dangling", "link_other", "link_dir", "link_twin"])
        dirs.append({"state": state, "files": files})
    idk = rp.choice(["absent", "absent"] + ID_KINDS)
    case = {"w": "w5", "dirs": dirs, "id": {"kind": idk, "seed": rp.getrandbits(32)},
            "rhsm": (rp.getrandbits(32) if rk.random() < 0.15 else None),
            "uuid_seed": rk.getrandbits(32), "ops": [], "faults": []}
    # how the subscription-manager peer spells its consumer id: candlepin ids are lower-case v4 in practice, but the
    # peer is another program -- any well-formed UUID text may come back
    case["rhsm_kind"] = rk.choice(["canonical", "canonical", "canonical", "v1", "upper", "hex", "v5", "braces"])
    nops = 1 + int(rp.random() ** 1.3 * (40 if tier == "thorough" else 30))
    for _ in range(nops):
        r = rp.random()
        if r < 0.28:
            op = {"op": "read"}
        elif r < 0.36:
            op = {"op": "regen"}
        elif r < 0.50:
            op = {"op": "register"}
        elif r < 0.64:
            op = {"op": "unregister"}
        elif r < 0.70:
            op = {"op": "del_reg"}
        elif r < 0.76:
            op = {"op": "del_unreg"}
        else:
            e = rp.random()
            d = rp.randrange(2)
            if e < 0.2:
                op = {"op": "env_rm", "dir": d, "file": rp.choice(MARKERS)}
            elif e < 0.5:
                op = {"op": "env_link", "dir": d, "file": rp.choice(MARKERS),
                      "target": rp.choice(["file", "dangling", "other", "dir", "twin"])}
            elif e < 0.6:
                op = {"op": "env_rmdir", "dir": d}
            elif e < 0.72:
                op = {"op": "env_mkdir", "dir": d}
            elif e < 0.8:
                op = {"op": "env_rhsm", "value": rp.choice([None, rp.getrandbits(32)])}
            elif e < 0.9:
                op = {"op": "env_rm_id"}
            else:
                op = {"op": "env_write_id", "kind": rp.choice(ID_KINDS), "seed": rp.getrandbits(32)}
        case["ops"].append(op)
    if rf.random() < 0.35:
        sut = [k for k, o in enumerate(case["ops"]) if not o["op"].startswith("env_")]
        for _ in range(rf.choice([1, 1, 2, 3])):
            if sut:
                case["faults"].append({"at_op": rf.choice(sut), "kind": rf.choice(["write-open", "write-open", "remove", "read-open"]),
                                       "nth": rf.choice([1, 1, 2, 3]), "errno": rf.choice(sorted(ERRNOS))})
    return case


class Env(object):
    """The simulated host: scratch tree + seams of insights.client.utilities."""

    def __init__(self, case):
        self.case = case
        self.root = tempfile.mkdtemp(prefix="w5-", dir=_scratch_base())
        self.dirs = [os.path.join(self.root, "etc", "insights-client"), os.path.join(self.root, "etc", "redhat-access-insights")]
        self.outside = os.path.join(self.root, "outside")
        os.makedirs(self.outside)
        self.id_file = os.path.join(self.dirs[0], "machine-id")
        self.targets = {}         # link path -> (target path, bytes or None)
        self.clock = SimClock()
        self.uuid = SeededUuid(case["uuid_seed"])
        self.rhsm = case["rhsm"]
        self.nlink = 0

    def rhsm_identity(self):
        if self.rhsm is None:
            return None
        bits = random.Random(self.rhsm).getrandbits(128)
        kind = self.case.get("rhsm_kind", "canonical")
        if kind == "v1":
            return str(_uuid.UUID(int=bits, version=1))
        if kind == "v5":
            return str(_uuid.UUID(int=bits, version=5))
        u = _uuid.UUID(int=bits, version=4)
        if kind == "upper":
            return str(u).upper()
        if kind == "hex":
            return u.hex
        if kind == "braces":
            return "{%s}" % u
        return str(u)

    def plant(self, d, fname, target):
        path = os.path.join(self.dirs[d], fname)
        if not os.path.isdir(self.dirs[d]):
            return
        if os.path.lexists(path):
            if os.path.isdir(path) and not os.path.islink(path):
                return
            os.remove(path)
        self.nlink += 1
        if target == "file":
            t = os.path.join(self.outside, "precious-%d" % self.nlink)
            with open(t, "w") as f:
                f.write("PRECIOUS-%d" % self.nlink)
        elif target == "dangling":
            t = os.path.join(self.outside, "nowhere-%d" % self.nlink)
        elif target == "other":
            od = self.dirs[1 - d]
            if not os.path.isdir(od):
                t = os.path.join(self.outside, "nowhere-%d" % self.nlink)
            else:
                t = os.path.join(od, "linked-%d" % self.nlink)
                with open(t, "w") as f:
                    f.write("OTHER-%d" % self.nlink)
        elif target == "twin":
            # the same-named marker of the other configuration directory (a legacy directory "merged" by links);
            # that file is legitimately written and removed by the operations themselves, so it is not tracked as a
            # victim -- the link itself must still be replaced by a marker operation
            os.symlink(os.path.join(self.dirs[1 - d], fname), path)
            return
        else:
            t = os.path.join(self.outside, "dir-%d" % self.nlink)
            os.makedirs(t)
            with open(os.path.join(t, "inner"), "w") as f:
                f.write("INNER-%d" % self.nlink)
        os.symlink(t, path)
        self.targets[path] = t

    def snapshot_targets(self):
        snap = {}
        for link, t in self.targets.items():
            if os.path.isdir(t):
                snap[t] = ("dir", sorted(os.listdir(t)), open(os.path.join(t, "inner")).read() if os.path.exists(os.path.join(t, "inner")) else None)
            elif os.path.exists(t):
                snap[t] = ("file", open(t, "rb").read())
            else:
                snap[t] = ("absent",)
        return snap

    def setup(self):
        case = self.case
        for d, spec in enumerate(case["dirs"]):
            if spec["state"] == "present":
                os.makedirs(self.dirs[d])
        for d, spec in enumerate(case["dirs"]):
            if spec["state"] != "present":
                continue
            for fname, kind in sorted(spec["files"].items()):
                if kind == "file":
                    with open(os.path.join(self.dirs[d], fname), "w") as f:
                        f.write("2020-01-01T00:00:00")
                else:
                    self.plant(d, fname, kind.split("_", 1)[1])
        if case["id"]["kind"] != "absent" and os.path.isdir(self.dirs[0]):
            with open(self.id_file, "w") as f:
                f.write(id_text(case["id"]["kind"], case["id"]["seed"]))

    def state(self):
        """Durable state only: what a later client run would find."""
        out = []
        for d in self.dirs:
            if not os.path.isdir(d):
                out.append("absent")
                continue
            ent = {}
            for n in sorted(os.listdir(d)):
                p = os.path.join(d, n)
                if os.path.islink(p):
                    ent[n] = "link"
                elif os.path.isdir(p):
                    ent[n] = "dir"
                elif n == "machine-id":
                    ent[n] = open(p, "rb").read().decode("utf-8", "replace")
                else:
                    ent[n] = "file"
            out.append(ent)
        return out

    def close(self):
        shutil.rmtree(self.root, ignore_errors=True)


class Seams(object):
    def __init__(self, env):
        self.env = env

    def __enter__(self):
        env = self.env
        self.saved = (constants.registered_files, constants.unregistered_files, U.uuid, U.get_time, U._get_rhsm_identity)
        constants.registered_files = [os.path.join(d, ".registered") for d in env.dirs]
        constants.unregistered_files = [os.path.join(d, ".unregistered") for d in env.dirs]
        U.uuid = env.uuid
        U.get_time = lambda: "T+%.3f" % env.clock.time()
        U._get_rhsm_identity = env.rhsm_identity
        return self

    def __exit__(self, *a):
        (constants.registered_files, constants.unregistered_files, U.uuid, U.get_time, U._get_rhsm_identity) = self.saved
        return False


def V(oracle, cls, message):
    return {"oracle": oracle, "cls": cls, "message": message}


def run_case(case):
    env = Env(case)
    viols = []
    log = []
    stats = {"faults_fired": {}, "probes": {}, "ops": {}}

    def probe(k):
        stats["probes"][k] = stats["probes"].get(k, 0) + 1
    try:
        env.setup()
        with Seams(env):
            last_id = None
            may_change = True
            why_change = "initial"
            for k, op in enumerate(case["ops"]):
                name = op["op"]
                stats["ops"][name] = stats["ops"].get(name, 0) + 1
                env.clock.work(60.0)
                # ------------------------------------------------ environment events (not the system under test)
                if name.startswith("env_"):
                    if name == "env_rm":
                        p = os.path.join(env.dirs[op["dir"]], op["file"])
                        if os.path.lexists(p) and not (os.path.isdir(p) and not os.path.islink(p)):
                            os.remove(p)
                            env.targets.pop(p, None)
                    elif name == "env_link":
                        env.plant(op["dir"], op["file"], op["target"])
                    elif name == "env_rmdir":
                        d = env.dirs[op["dir"]]
                        if os.path.isdir(d):
                            shutil.rmtree(d)
                            for lp in list(env.targets):
                                if lp.startswith(d + os.sep):
                                    env.targets.pop(lp)
                            if op["dir"] == 0:
                                may_change, why_change = True, "directory removed"
                    elif name == "env_mkdir":
                        d = env.dirs[op["dir"]]
                        if not os.path.isdir(d):
                            os.makedirs(d)
                            if op["dir"] == 0:
                                may_change, why_change = True, "directory recreated"
                    elif name == "env_rhsm":
                        env.rhsm = op["value"]
                        if not os.path.isfile(env.id_file):
                            may_change, why_change = True, "subscription identity changed while no identifier file exists"
                    elif name == "env_rm_id":
                        if os.path.isfile(env.id_file):
                            os.remove(env.id_file)
                            may_change, why_change = True, "identifier file deleted externally"
                    elif name == "env_write_id":
                        if os.path.isdir(env.dirs[0]):
                            with open(env.id_file, "w") as f:
                                f.write(id_text(op["kind"], op["seed"]))
                            may_change, why_change = True, "identifier file written externally"
                    log.append((k, name, env.state()))
                    continue
                # ------------------------------------------------ an operation of the client
                faults = [Fault(f["kind"], f["nth"], ERRNOS[f["errno"]], under=env.root) for f in case["faults"] if f["at_op"] == k]
                before_targets = env.snapshot_targets()
                id_before = open(env.id_file, "rb").read() if os.path.isfile(env.id_file) else None
                both_before = dict((d, all(os.path.lexists(os.path.join(d, m)) for m in MARKERS)) for d in env.dirs)
                dir0_before = os.path.isdir(env.dirs[0])
                ret = None
                raised = None
                with Monitor(root=env.root, faults=faults) as mon:
                    try:
                        if name == "read":
                            ret = U.generate_machine_id(destination_file=env.id_file)
                        elif name == "regen":
                            ret = U.generate_machine_id(new=True, destination_file=env.id_file)
                        elif name == "register":
                            U.write_registered_file()
                        elif name == "unregister":
                            U.write_unregistered_file()
                        elif name == "del_reg":
                            U.delete_registered_file()
                        elif name == "del_unreg":
                            U.delete_unregistered_file()
                        else:
                            raise HarnessError("unknown op %r" % name)
                    except SystemExit as e:
                        raised = ("SystemExit", e.code)
                        probe("invalid_identifier_exit")
                    except OSError as e:
                        raised = ("OSError", e.errno)
                for f in mon.fired:
                    stats["faults_fired"]["%s:%s" % (f[0], errno.errorcode.get(f[2], f[2]))] = \
                        stats["faults_fired"].get("%s:%s" % (f[0], errno.errorcode.get(f[2], f[2])), 0) + 1
                if raised and raised[0] == "OSError" and not mon.fired:
                    viols.append(V("C17.escape", "oserror-without-fault:%s" % name,
                                   "op %d %s raised OSError(%s) although no fault was injected" % (k, name, raised[1])))
                faulted = bool(mon.fired)
                # ---- identifier invariants
                if name in ("read", "regen"):
                    if ret is not None:
                        try:
                            canonical = str(_uuid.UUID(ret)) == ret
                        except (ValueError, AttributeError, TypeError):
                            canonical = False
                        if not canonical:
                            viols.append(V("C17.identifier", "not-canonical", "op %d %s returned %r, not a canonical UUID" % (k, name, ret)))
                        if name == "read":
                            if not may_change and last_id is not None and ret != last_id:
                                absent = not dir0_before
                                viols.append(V("C17.identifier",
                                               "changed-without-request:%s" % ("config-dir-absent" if absent else "config-dir-present"),
                                               "op %d read returned %s, previous identifier was %s and no regeneration / external "
                                               "change happened in between (config dir %s)" % (k, ret, last_id, "absent" if absent else "present")))
                            if not may_change:
                                probe("reads_checked_for_stability")
                        # an identifier that was *returned* is the machine's identifier from now on, whatever happened
                        # inside the operation (on this tree a faulted operation raises and returns nothing)
                        last_id = ret
                        may_change = False
                        if faulted:
                            probe("identifier_returned_despite_fault")
                    elif name == "regen" or faulted:
                        may_change, why_change = True, "operation failed"
                    if name == "read" and id_before:
                        wrote = [p for p in mon.paths("write-open") if os.path.realpath(p) == os.path.realpath(env.id_file)]
                        after = open(env.id_file, "rb").read() if os.path.isfile(env.id_file) else None
                        probe("reads_of_existing_identifier")
                        if wrote or after != id_before:
                            viols.append(V("C17.identifier", "rewritten-by-read",
                                           "op %d read: existing identifier file (%r) was %s" % (
                                               k, id_before[:40], "opened for writing" if wrote else "changed to %r" % (after,))))
                # ---- marker invariants
                if name in ("register", "unregister", "del_reg", "del_unreg"):
                    for d in env.dirs:
                        if not os.path.isdir(d):
                            continue
                        both = all(os.path.lexists(os.path.join(d, m)) for m in MARKERS)
                        if both and faulted and both_before.get(d):
                            continue       # a failed operation need not repair a state it found; it must not create one
                        if both and name in ("register", "unregister"):
                            viols.append(V("C17.markers", "both-markers-present:%s%s" % (name, ":after-fault" if faulted else ""),
                                           "after op %d %s both .registered and .unregistered exist in %s" % (k, name, os.path.basename(d))))
                    if name in ("register", "unregister") and not faulted:
                        mine = ".registered" if name == "register" else ".unregistered"
                        for d in env.dirs:
                            p = os.path.join(d, mine)
                            if os.path.isdir(d) and os.path.islink(p):
                                viols.append(V("C17.markers", "symlink-left-at-marker:%s" % name,
                                               "after op %d %s the marker %s is still a symlink" % (k, name, p[len(env.root):])))
                    after_targets = env.snapshot_targets()
                    for t, snap in before_targets.items():
                        if after_targets.get(t, snap) != snap:
                            viols.append(V("C17.markers", "symlink-followed:%s" % name,
                                           "op %d %s changed the target of a planted symlink: %s: %r -> %r" % (
                                               k, name, t[len(env.root):], snap, after_targets.get(t))))
                    if before_targets:
                        probe("marker_ops_with_planted_symlink")
                    # links that were replaced or removed are no longer tracked
                    for lp in list(env.targets):
                        if not os.path.islink(lp):
                            env.targets.pop(lp)
                log.append((k, name, ret, raised, env.state()))
    finally:
        env.close()
    dg = digest(log)
    return {"digest": dg, "sig": dg, "violations": viols, "stats": stats,
            "nontrivial": len(case["ops"]) > 1, "sim_seconds": env.clock.elapsed(),
            "distinct": {"final_states": digest(log[-1][-1]) if log else None}}


def shrink(case):
    import json
    n = len(case["ops"])

    def cp():
        return json.loads(json.dumps(case))

    def drop(c, k):
        del c["ops"][k]
        nf = []
        for f in c["faults"]:
            if f["at_op"] == k:
                continue
            if f["at_op"] > k:
                f["at_op"] -= 1
            nf.append(f)
        c["faults"] = nf
    chunk = n // 2
    while chunk >= 2:
        for a in range(0, n, chunk):
            c = cp()
            for k in reversed(range(a, min(n, a + chunk))):
                drop(c, k)
            if c["ops"]:
                yield c
        chunk //= 2
    for k in reversed(range(n)):
        if n > 1:
            c = cp()
            drop(c, k)
            yield c
    for k in range(len(case["faults"])):
        c = cp()
        del c["faults"][k]
        yield c
    for d in range(2):
        if case["dirs"][d]["files"]:
            for fname in sorted(case["dirs"][d]["files"]):
                c = cp()
                del c["dirs"][d]["files"][fname]
                yield c
        if d == 1 and case["dirs"][d]["state"] == "present":
            c = cp()
            c["dirs"][d] = {"state": "absent", "files": {}}
            yield c
    if case["id"]["kind"] not in ("absent", "canonical"):
        c = cp()
        c["id"]["kind"] = "canonical"
        yield c
    if case["id"]["kind"] != "absent":
        c = cp()
        c["id"]["kind"] = "absent"
        yield c
    if case["rhsm"] is not None:
        c = cp()
        c["rhsm"] = None
        yield c
    if case.get("rhsm_kind", "canonical") != "canonical":
        c = cp()
        c["rhsm_kind"] = "canonical"
        yield c


class C17(Check):
    title = "Client identity and registration markers stay coherent over any history"
    quick = dict(runs=300000, wall=100)
    thorough = dict(runs=6000000, wall=1500)
    rule = ("case = initial state of two configuration directories (absent / empty / .registered / .unregistered / both / planted "
            "symlinks to a file, a dangling path, a file in the other directory, the same-named marker of the other directory, a "
            "directory) x identifier file (absent, canonical, "
            "un-hyphenated legacy, upper-case, trailing newline, padded, empty, blank, garbage, non-v4, another script's digits) x "
            "history of 1-30 (thorough "
            "40) operations: generate_machine_id() read / new=True, write_registered_file, write_unregistered_file, delete_*_file, "
            "environment events between operations (marker deleted, symlink planted, directory removed/recreated, subscription "
            "identity appearing/disappearing -- spelled as a canonical v4 UUID, a version-1 / version-5 UUID, upper-case, un-hyphenated or in braces --, identifier file deleted or rewritten externally) x injected faults (n-th write-open / "
            "remove inside an operation fails with ENOSPC/EIO/EACCES/EROFS/EDQUOT/EPERM, 35% of cases); invariants after every operation; non-trivial = "
            "history longer than one operation; distinct = digest of (returns, durable state after every step)")
    real_vs_stub = {
        "insights.client.utilities.generate_machine_id / write_registered_file / write_unregistered_file / delete_*_file / write_to_disk": "real",
        "file system": "real directory tree under a private scratch directory (tmpfs), so symlink semantics are the kernel's",
        "uuid.uuid4": "seeded stand-in (utilities.uuid attribute)",
        "utilities.get_time": "reads SimClock",
        "subscription-manager identity (utilities._get_rhsm_identity)": "stub peer returning a seeded identity or None",
        "constants.registered_files / unregistered_files": "pointed into the scratch tree",
        "I/O faults": "audit-hook injector raising OSError at the n-th matching event",
    }
    assumptions = [
        "a client run keeps no in-memory state between operations (checked: only durable state is compared)",
        "crash points inside an operation are not simulated; injected I/O errors are",
        "marker locations are never real directories",
        "checks run as root, so permission failures are only simulated (EACCES through the injector)",
    ]

    def __init__(self, prop):
        self.prop = prop

    def generate(self, st, tier):
        return gen_case(st, tier)

    def execute(self, case):
        return run_case(case)

    def shrink(self, case):
        return shrink(case)


def get_check(prop):
    return C17(prop)
