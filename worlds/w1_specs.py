"""World W1s -- spec-set programs (C05): which implementation supplies a spec.

A case is a *history of class definitions*: a base SpecSet with 1-3 registry points, then 1-5 direct
sub-classes, each implementing a subset of the names through a generated datasource that is bound to one
generated execution context, to an at-least-one list of contexts, or to a helper datasource that is itself
bound to context(s).  Classes are created at run time through the real ``SpecSetMeta`` metaclass; exactly one
generated context is active (present in the broker); the real engine evaluates parsers built on the registry
points.  The reference model is "the latest registered implementation whose (transitive) contexts contain
the active one".
"""
import random

from simkit import HarnessError
from simkit import registry
from simkit.runner import Check
from simkit.seeds import digest

from worlds import w1_engine as w1
from worlds.w1_engine import V, G, _copy

from insights.core import dr, plugins, spec_factory
from insights.core.context import ExecutionContext, ExecutionContextMeta
from insights.core.spec_factory import SpecSet

OUTS = ["value", "value", "value", "value", "skip", "ce", "cpe", "boom"]


class SeededCtxMeta(ExecutionContextMeta):
    """Execution contexts live in sets (dependencies, ignores): give generated ones a seeded hash."""
    def __hash__(cls):
        return cls._h

    def __eq__(cls, o):
        return cls is o

    def __ne__(cls, o):
        return cls is not o


def gen_case(st, tier):
    rp, rf, rk = st.prog, st.fault, st.knob
    nctx = rp.choice([1, 2, 2, 3, 3, 4 if tier == "thorough" else 3])
    nrp = rp.choice([1, 1, 2, 3])
    ncls = rp.choice([1, 2, 2, 3, 3, 4, 5, 7 if tier == "thorough" else 5])
    case = {"w": "w1s",
            "contexts": [{"name": "Ctx%d" % i, "h": rp.getrandbits(40)} for i in range(nctx)],
            "rps": [{"name": "r%d" % i, "h": rp.getrandbits(40), "multi": rp.random() < 0.25,
                     "ph": rp.getrandbits(40)} for i in range(nrp)],
            "classes": [], "store_skips": rk.random() < 0.3, "debug_log": rk.random() < 0.25}
    # contexts in a sub-class relation, as JBossContext(HostContext) is: the broker is keyed by the exact class, so an
    # implementation for the base context says nothing about the derived one  (own PRNG: older cases stay what they were)
    from simkit.seeds import h64
    import random as _r
    rb = _r.Random(h64(st.seed, "ctxbase"))
    for k in range(1, nctx):
        if rb.random() < 0.3:
            case["contexts"][k]["base"] = rb.randrange(k)
    for c in range(ncls):
        impls = {}
        for r in case["rps"]:
            if rp.random() < 0.7:
                bind = rp.choice(["one", "one", "list", "helper", "helperlist"])
                k = 1 if bind in ("one", "helper") else rp.randint(1, nctx)
                impls[r["name"]] = {"h": rp.getrandbits(40), "hh": rp.getrandbits(40), "bind": bind,
                                    "ctxs": sorted(rp.sample(range(nctx), k)),
                                    "out": rf.choice(OUTS), "elems": rp.choice([1, 2, 3])}
                earlier = [cl0 for cl0 in case["classes"] if r["name"] in cl0["impls"] and cl0.get("parent") is None]
                if earlier and rp.random() < 0.15:
                    # an override built ON TOP of the implementation it overrides: the earlier datasource sits in the
                    # dependency tree of the later one (optional, or member of an at-least-one group next to the
                    # contexts).  The later one is declared for the same contexts, so it can always run there.
                    e0 = rp.choice(earlier)
                    impls[r["name"]].update(bind="list", ctxs=list(e0["impls"][r["name"]]["ctxs"]),
                                            upstream={"cls": e0["name"], "form": rp.choice(["optional", "group"])})
        cl = {"name": "D%d" % c, "impls": impls, "parent": None}
        if c > 0 and rp.random() < 0.12:
            cl["parent"] = rp.randrange(c)          # derived from an implementing class, not from the declaring one
        if c < ncls - 1 and rp.random() < 0.1:
            # a class that implements nothing but RE-DECLARES some registry points under their own names (an extended
            # spec set): classes derived from it implement those names on a par with the direct sub-classes
            cl = {"name": "E%d" % c, "impls": {}, "parent": None,
                  "redeclares": dict((r["name"], rp.getrandbits(40)) for r in case["rps"] if rp.random() < 0.7)}
        elif cl["parent"] is None and rp.random() < 0.5:
            ext = [k for k, c0 in enumerate(case["classes"]) if c0.get("redeclares")]
            if ext:
                cl["parent"] = rp.choice(ext)
        case["classes"].append(cl)
    # evaluations in the middle of the history (a long-lived process: evaluate, load another spec package, evaluate again)
    case["eval_after"] = sorted(set(k for k in range(ncls - 1) if rp.random() < 0.25))
    case["active"] = rp.randrange(nctx)
    if nctx >= 2 and rk.random() < 0.06:
        # an override bound to its contexts only through a helper that depends on ANOTHER spec's registry point, where
        # the helper was already in use (by an implementation of a third, unasserted spec) before that other spec got
        # its implementation for a second context.  The override is registered last, so the contexts reachable below
        # it are final.
        a, b = rp.sample(range(nctx), 2)

        def im(bind, ctxs, out=None):
            return {"h": rp.getrandbits(40), "hh": rp.getrandbits(40), "bind": bind, "ctxs": sorted(ctxs),
                    "out": out or rf.choice(OUTS), "elems": rp.choice([1, 2, 3])}
        case["rps"] = [{"name": "r0", "h": rp.getrandbits(40), "multi": False, "ph": rp.getrandbits(40)},
                       {"name": "r1", "h": rp.getrandbits(40), "multi": rp.random() < 0.25, "ph": rp.getrandbits(40)},
                       {"name": "rz", "h": rp.getrandbits(40), "multi": False, "ph": rp.getrandbits(40), "unasserted": True}]
        case["helper_h"] = {"on": "r0", "h": rp.getrandbits(40)}
        case["classes"] = [
            {"name": "D0", "parent": None, "impls": {"r0": im("one", [a], "value"), "r1": im("list", [a, b])}},
            {"name": "D1", "parent": None, "impls": {"rz": im("via_h", [a], "value")}},
            {"name": "D2", "parent": None, "impls": {"r0": im("one", [b], rf.choice(["value", "value", "value", "skip"]))}},
            {"name": "D3", "parent": None, "impls": {"r1": im("via_h", [a, b])}},
        ]
        case["eval_after"] = sorted(set(k for k in range(3) if rp.random() < 0.2))
        case["active"] = b if rp.random() < 0.7 else rp.randrange(nctx)
    rs = st.sched
    k = rs.choice(["run", "run", "order", "incr", "all"])
    case["driver"] = {"kind": k}
    if k == "order":
        case["driver"]["order_seed"] = rs.getrandbits(32)
    return case


class SpecWorld(object):
    def __init__(self, case):
        self.case = case
        self.ev = []
        self.faults_fired = {}

    def mk_ds(self, tag, h, deps, out, multi=False, elems=1, optional=None):
        ev = self.ev
        world = self

        def body(broker):
            ev.append(("call", tag))
            if out == "value":
                if multi:
                    return ["value-%s-%d" % (tag, k) for k in range(elems)]
                return "value-" + tag
            world.faults_fired[out] = world.faults_fired.get(out, 0) + 1
            raise w1.make_exc(out, tag)
        g = G(tag.replace(".", "_"), h)
        g._body = body
        g.tag = tag
        if optional:
            plugins.datasource(*deps, optional=list(optional))(g)
        else:
            plugins.datasource(*deps)(g)
        return g

    def define_class(self, ci):
        case = self.case
        c = case["classes"][ci]
        cb = {"__module__": w1.MODNAME}
        for rn, h in sorted((c.get("redeclares") or {}).items()):
            base_rp = [r for r in case["rps"] if r["name"] == rn]
            if base_rp:
                cb[rn] = w1.RegistryPoint(rn, h, multi_output=base_rp[0]["multi"])
        for rn in sorted(c["impls"]):
            im = c["impls"][rn]
            tag = "%s.%s" % (c["name"], rn)
            cs = [self.ctxs[k] for k in im["ctxs"]]
            if im["bind"] == "one":
                deps = [cs[0]]
            elif im["bind"] == "list":
                deps = [list(cs)]
            elif im["bind"] == "via_h" and case.get("helper_h") and case["helper_h"]["on"] in self.rps:
                if self.helper_h is None:
                    hh = case["helper_h"]
                    self.helper_h = self.mk_ds("H." + hh["on"], hh["h"], [self.rps[hh["on"]]], "value")
                deps = [self.helper_h]
            elif im["bind"] == "via_h":
                deps = [list(cs)]                  # (the shrinker removed the helper's spec: bound to its contexts directly)
            elif im["bind"] == "helper":
                deps = [self.mk_ds(tag + ".helper", im["hh"], [cs[0]], "value")]
            else:
                deps = [self.mk_ds(tag + ".helper", im["hh"], [list(cs)], "value")]
            multi = [r for r in case["rps"] if r["name"] == rn][0]["multi"]
            optional = None
            up = im.get("upstream")
            if up:
                eci = [k for k, c0 in enumerate(case["classes"][:ci]) if c0["name"] == up["cls"]]
                eds = self.impls.get((eci[0], rn)) if eci else None
                if eds is not None:                  # (the shrinker may have removed the earlier class)
                    if up["form"] == "optional":
                        optional = [eds]
                    else:
                        deps = deps + [[eds] + list(cs)]
            ds = self.mk_ds(tag, im["h"], deps, im["out"], multi, im.get("elems", 1), optional=optional)
            cb[rn] = ds
            self.impls[(ci, rn)] = ds
        parent = self.base
        if c.get("parent") is not None and c["parent"] in self.classes:
            parent = self.classes[c["parent"]]
        self.classes[ci] = type(c["name"], (parent,), cb)          # the real metaclass wires the implementations

    def build(self):
        case = self.case
        self.ctxs = []
        for c in case["contexts"]:
            b = c.get("base")
            parent = self.ctxs[b] if b is not None and b < len(self.ctxs) else ExecutionContext
            self.ctxs.append(SeededCtxMeta(c["name"], (parent,), {"_h": c["h"], "__module__": w1.MODNAME}))
        body = {"__module__": w1.MODNAME}
        self.rps = {}
        for r in case["rps"]:
            p = w1.RegistryPoint(r["name"], r["h"], multi_output=r["multi"])
            body[r["name"]] = p
            self.rps[r["name"]] = p
        self.base = type("VSpecs", (SpecSet,), body)
        self.impls = {}          # (class index, rp name) -> datasource object
        self.helper_h = None
        self.classes = {}
        self.parsers = {}
        ev = self.ev
        for r in case["rps"]:
            pg = G("P_" + r["name"], r["ph"])

            def pbody(v, rn=r["name"]):
                ev.append(("parse", rn, v))
                return ("parsed", rn, v)
            pg._body = pbody
            plugins.parser(self.rps[r["name"]])(pg)
            self.parsers[r["name"]] = pg


def expected(case, upto=None):
    """rp name -> dict(latest=tag|None, value=..., must_not_run=[tags]) for the classes defined so far."""
    a = case["active"]
    out = {}
    classes = case["classes"][:upto] if upto is not None else case["classes"]
    hh = case.get("helper_h")
    hon = hh["on"] if hh and any(r["name"] == hh["on"] for r in case["rps"]) else None

    def eff(ci, im):
        """Contexts an implementation is registered for: its own, or -- bound through the helper -- whatever the
        implementations of the helper's spec registered BEFORE it are declared for."""
        if im["bind"] == "via_h" and hon is not None:
            out_ = set()
            for c0 in classes[:ci]:
                if hon in c0["impls"] and c0.get("parent") is None:
                    out_ |= set(c0["impls"][hon]["ctxs"])
            return out_
        return set(im["ctxs"])
    for r in case["rps"]:
        rn = r["name"]
        # a class derived from an implementing class (not from the declaring one) registers nothing: its datasources are
        # not implementations of the spec (the code wires direct sub-classes only) and must never contribute
        def registered(c):
            # the metaclass looks a name up in the registry of the DIRECT base only: the declaring class, or an
            # extended spec set (itself directly below the declaring class) that re-declares the name
            pa = c.get("parent")
            if pa is None:
                return True
            if pa >= len(classes):
                return False
            pc = classes[pa]
            return pc.get("parent") is None and rn in (pc.get("redeclares") or {})
        regs = [(ci, c["name"], c["impls"][rn]) for ci, c in enumerate(classes) if rn in c["impls"] and registered(c)]
        second = ["%s.%s" % (c["name"], rn) for c in classes if rn in c["impls"] and not registered(c)]
        cands = [(ci, cn, im) for ci, cn, im in regs if a in eff(ci, im)]
        others = [(ci, cn, im) for ci, cn, im in regs if a not in eff(ci, im)]
        e = {"must_not_run": ["%s.%s" % (cn, rn) for ci, cn, im in cands[:-1]] + ["%s.%s" % (cn, rn) for ci, cn, im in others] + second,
             "second_level": second,
             "latest": None, "value": w1.ABSENT, "n_candidates": len(cands), "n_impls": len(regs)}
        if cands:
            ci, cn, im = cands[-1]
            tag = "%s.%s" % (cn, rn)
            e["latest"] = tag
            e["latest_out"] = im["out"]
            e["latest_runs"] = True
            if im["bind"] == "via_h" and hon is not None and out.get(hon, {}).get("value", w1.ABSENT) == w1.ABSENT:
                e["latest_runs"] = False          # its helper has nothing to work on: it cannot run, the spec is absent
            elif im["out"] == "value":
                e["value"] = ["value-%s-%d" % (tag, k) for k in range(im.get("elems", 1))] if r["multi"] else "value-" + tag
        out[rn] = e
    return out


def evaluate(case, world):
    graph = {}
    for p in world.parsers.values():
        graph.update(dr.get_dependency_graph(p))
    broker = dr.Broker()
    broker.store_skips = case["store_skips"]
    act = world.ctxs[case["active"]]
    broker[act] = act()
    d = case["driver"]
    escaped = None
    del world.ev[:]
    try:
        if d["kind"] == "run":
            dr.run(graph, broker)
        elif d["kind"] == "order":
            order = w1.linear_extension(graph, random.Random(d["order_seed"]))
            dr.run_components(order, graph, broker)
        elif d["kind"] == "incr":
            list(dr.run_incremental(graph, broker))
        else:
            dr.run_all(graph, broker, None)
    except HarnessError:
        raise
    except Exception as ex:
        escaped = ex
    obs = {"escaped": escaped, "ev": list(world.ev), "rp": {}, "parser_missing": {}, "ignore": {},
           "faults_fired": dict(world.faults_fired)}
    for rn, p in world.rps.items():
        obs["rp"][rn] = broker[p] if p in broker else w1.ABSENT
        pg = world.parsers[rn]
        obs["parser_missing"][rn] = pg in broker.missing_requirements
    for (ci, rn), ds in world.impls.items():
        obs["ignore"]["%s.%s" % (case["classes"][ci]["name"], rn)] = sorted(c.__name__ for c in dr.IGNORE.get(ds, ()))
    return obs


def run_case(case):
    """Defines the classes one after the other; evaluates after the last one and after each class listed in
    case['eval_after'] (the registry as it is at that moment).  Returns [(number of classes defined, observation)]."""
    world = SpecWorld(case)
    w1w = w1.World({"nodes": [], "observers": [], "seeded": [], "store_skips": case["store_skips"], "hostctx": False,
                    "targets": None})
    out = []
    with registry.scope():
        with w1.Patches(w1w, case.get("debug_log")):
            world.build()
            n = len(case["classes"])
            for ci in range(n):
                world.define_class(ci)
                if ci in (case.get("eval_after") or []) or ci == n - 1:
                    out.append((ci + 1, evaluate(case, world)))
    return out


def oracle(case, obs, upto=None):
    out = []
    if obs["escaped"] is not None:
        out.append(V("C05.escape", "escape:%s" % type(obs["escaped"]).__name__, "evaluation raised %r" % (obs["escaped"],)))
        return out
    exp = expected(case, upto)
    later = "" if upto in (None, len(case["classes"])) else ":mid-history"
    called = [e[1] for e in obs["ev"] if e[0] == "call"]
    parsed = {}
    for e in obs["ev"]:
        if e[0] == "parse":
            parsed.setdefault(e[1], []).append(e[2])
    actname = case["contexts"][case["active"]]["name"]
    unasserted = set(r["name"] for r in case["rps"] if r.get("unasserted"))
    for rn, e in sorted(exp.items()):
        if rn in unasserted:
            continue          # (a spec whose only implementation hangs on the helper: there to put the helper to use early)
        shape = "impls=%d candidates=%d" % (e["n_impls"], e["n_candidates"])
        for tag in e["must_not_run"]:
            if tag in called:
                im = [c["impls"][rn] for c in case["classes"] if c["name"] == tag.split(".")[0]][0]
                kind = "overridden-implementation-executed" if case["active"] in im["ctxs"] else "other-context-implementation-executed"
                if tag in e["second_level"]:
                    kind = "second-level-class-datasource-executed"
                out.append(V("C05.resolution", "%s:%s" % (kind, im["bind"]),
                             "%s ran under active context %s although %s (%s)" % (
                                 tag, actname, "a later implementation for that context exists (%s)" % e["latest"]
                                 if case["active"] in im["ctxs"] else "it is declared for %s only" % im["ctxs"], shape)))
        if e["latest"] is not None and e.get("latest_runs", True) and e["latest"] not in called:
            out.append(V("C05.resolution", "latest-implementation-not-executed",
                         "%s is the latest implementation for %s but did not run (%s)" % (e["latest"], actname, shape)))
        got = obs["rp"][rn]
        if got != e["value"]:
            if e["value"] == w1.ABSENT:
                cls = "spec-filled-from-overridden-or-foreign-implementation" if e["latest"] else "spec-filled-without-candidate"
            elif got == w1.ABSENT:
                cls = "spec-absent-although-latest-produced-a-value"
            else:
                cls = "spec-has-wrong-value"
            out.append(V("C05.value", cls, "spec %s under %s: value %r, expected %r (latest=%s, out=%s, %s)" % (
                rn, actname, got, e["value"], e["latest"], e.get("latest_out"), shape)))
        want_parsed = []
        if e["value"] != w1.ABSENT:
            want_parsed = list(e["value"]) if isinstance(e["value"], list) else [e["value"]]
        if parsed.get(rn, []) != want_parsed:
            out.append(V("C05.value", "parser-received-wrong-input", "parser on %s received %r, expected %r" % (rn, parsed.get(rn, []), want_parsed)))
        if e["value"] == w1.ABSENT and not obs["parser_missing"][rn]:
            out.append(V("C05.value", "parser-not-reported-missing", "spec %s absent but its parser has no missing-requirements record" % rn))
    return out


def shrink(case):
    n = len(case["classes"])
    for k in reversed(range(n)):
        if n > 1:
            c = _copy(case)
            del c["classes"][k]
            for cl in c["classes"]:
                pa = cl.get("parent")
                if pa is not None:
                    cl["parent"] = None if pa == k else (pa - 1 if pa > k else pa)
            c["eval_after"] = sorted(set((e - 1 if e > k else e) for e in (c.get("eval_after") or []) if e != k and (e - 1 if e > k else e) < len(c["classes"]) - 1))
            yield c
    for e in list(case.get("eval_after") or []):
        c = _copy(case)
        c["eval_after"] = [x for x in c["eval_after"] if x != e]
        yield c
    for k, cl in enumerate(case["classes"]):
        if cl.get("parent") is not None:
            c = _copy(case)
            c["classes"][k]["parent"] = None
            yield c
    if len(case["rps"]) > 1:
        for k in range(len(case["rps"])):
            c = _copy(case)
            rn = c["rps"][k]["name"]
            del c["rps"][k]
            for cl in c["classes"]:
                cl["impls"].pop(rn, None)
            yield c
    for ci, cl in enumerate(case["classes"]):
        for rn, im in sorted(cl["impls"].items()):
            c = _copy(case)
            del c["classes"][ci]["impls"][rn]
            yield c
            if im["bind"] != "one":
                c = _copy(case)
                c["classes"][ci]["impls"][rn]["bind"] = "one" if im["bind"] in ("helper", "list") and len(im["ctxs"]) == 1 else (
                    "list" if im["bind"] == "helperlist" else "one")
                if c["classes"][ci]["impls"][rn]["bind"] == "one":
                    c["classes"][ci]["impls"][rn]["ctxs"] = im["ctxs"][:1]
                yield c
            if len(im["ctxs"]) > 1:
                for x in range(len(im["ctxs"])):
                    c = _copy(case)
                    del c["classes"][ci]["impls"][rn]["ctxs"][x]
                    yield c
            if im["out"] != "value":
                c = _copy(case)
                c["classes"][ci]["impls"][rn]["out"] = "value"
                yield c
    for k, r in enumerate(case["rps"]):
        if r["multi"]:
            c = _copy(case)
            c["rps"][k]["multi"] = False
            yield c
    if case["driver"]["kind"] != "run":
        c = _copy(case)
        c["driver"] = {"kind": "run"}
        yield c
    if case["store_skips"]:
        c = _copy(case)
        c["store_skips"] = False
        yield c
    # drop an unused context (keeping indices valid)
    used = set([case["active"]]) | set(x for cl in case["classes"] for im in cl["impls"].values() for x in im["ctxs"])
    for k in reversed(range(len(case["contexts"]))):
        if k not in used and len(case["contexts"]) > 1:
            c = _copy(case)
            del c["contexts"][k]
            for cx in c["contexts"]:
                if cx.get("base") is not None:
                    cx["base"] = None if cx["base"] == k else (cx["base"] - 1 if cx["base"] > k else cx["base"])

            def rm(j):
                return j - 1 if j > k else j
            c["active"] = rm(c["active"])
            for cl in c["classes"]:
                for im in cl["impls"].values():
                    im["ctxs"] = [rm(j) for j in im["ctxs"]]
            yield c


class C05(Check):
    title = "The latest implementation for the active context is the one that supplies a spec"
    quick = dict(runs=250000, wall=100)
    thorough = dict(runs=8000000, wall=1500)
    rule = ("case = history of class definitions: base SpecSet with 1-3 registry points (some multi-output) + 1-5 (thorough: 7) "
            "direct sub-classes created through the real SpecSetMeta, each implementing a subset of the names by a generated "
            "datasource bound to one context / an at-least-one list of contexts / a helper datasource bound to context(s) / the "
            "same contexts as an earlier implementation that sits in its own dependency tree (optional or group member); "
            "second-level classes; extended spec sets that re-declare registry points (implementing classes below them); a "
            "scripted regime with a helper bound to another spec's registry point; evaluations in the middle of the history; "
            "debug logging on in 25%; outcome "
            "per implementation in {value, skip, content error, failed command, crash}; one generated context active; driver in "
            "{dr.run with seeded tie-break, forced linear extension, run_incremental, run_all}; non-trivial = a spec with >= 2 "
            "implementations of which >= 1 is a candidate; distinct = digest of (event log, spec values)")
    real_vs_stub = {
        "insights.core.spec_factory.SpecSetMeta/_resolve_registry_points/_register_context_handler/RegistryPoint.__call__": "real",
        "insights.core.dr (engine, IGNORE handling, add_dependency)": "real",
        "insights.core.plugins.datasource / parser": "real",
        "execution contexts": "generated ExecutionContext sub-classes (real ExecutionContextMeta, seeded __hash__)",
        "implementation bodies": "generated (value / skip / content error / failed command / crash)",
        "shipped spec sets (default.py, insights_archive.py, sos_archive.py, core3_archive.py)": "not executed (they read the live host); only the registration mechanism they use runs",
    }
    assumptions = [
        "only direct sub-classes of the spec set (the code wires nothing else) and implementations bound to >= 1 context",
        "implementations never return None ('yields nothing' would be ambiguous)",
        "<= 3 registry points, <= 7 classes, <= 4 contexts",
    ]

    def __init__(self, prop):
        self.prop = prop

    def generate(self, st, tier):
        return gen_case(st, tier)

    def execute(self, case):
        evals = run_case(case)
        viols = []
        for upto, o in evals:
            for v in oracle(case, o, upto):
                if upto != len(case["classes"]):
                    v["cls"] += ":mid-history"
                    v["message"] = "after %d of %d class definitions: %s" % (upto, len(case["classes"]), v["message"])
                viols.append(v)
        obs = evals[-1][1]
        exp = expected(case)
        nontrivial = any(e["n_impls"] >= 2 and e["n_candidates"] >= 1 for e in exp.values())
        stats = {"faults_fired": dict(obs["faults_fired"]), "drivers": {case["driver"]["kind"]: 1}, "probes": {}}
        pr = stats["probes"]
        if len(evals) > 1:
            pr["histories_with_mid_history_evaluation"] = 1
        if any(c.get("parent") is not None for c in case["classes"]):
            pr["histories_with_second_level_class"] = 1
        for e in exp.values():
            if e["n_candidates"] >= 2:
                pr["specs_with_overridden_candidate"] = pr.get("specs_with_overridden_candidate", 0) + 1
            if e["n_candidates"] >= 3:
                pr["specs_with_3plus_candidates"] = pr.get("specs_with_3plus_candidates", 0) + 1
            if e["latest"] and e["value"] == w1.ABSENT and e["n_candidates"] >= 2:
                pr["latest_fails_with_overridden_sibling"] = pr.get("latest_fails_with_overridden_sibling", 0) + 1
            if e["n_impls"] > e["n_candidates"] > 0:
                pr["specs_with_mixed_context_implementations"] = pr.get("specs_with_mixed_context_implementations", 0) + 1
        # internal probe: the ignore sets the metaclass registered
        dg = digest([[(u, o["ev"], sorted(o["rp"].items(), key=repr)) for u, o in evals], sorted(obs["ignore"].items())])
        return {"digest": dg, "sig": dg, "violations": viols, "stats": stats, "nontrivial": nontrivial, "sim_seconds": 0.0,
                "distinct": {"histories": digest([case["classes"], case["active"], len(case["contexts"])])}}

    def shrink(self, case):
        return shrink(case)


def get_check(prop):
    return C05(prop)
