"""World W2 -- host collection into an archive and loading it back (C06, C11).

The executor mirrors ``insights.collect.collect()`` (lines 210-267) with the same real functions --
``apply_blacklist``, ``dr.Broker``, ``Hydration``, ``make_persister``, ``dr.run_all`` -- on a generated spec
set built from the real factories (simple_file, glob_file, first_file, foreach_collect, simple_command,
command_with_args, foreach_execute, container_execute, container_collect, DatasourceProvider) instead of the
800 shipped host specs (which would read the sandbox's own /), and then mirrors analysis with the real
``hydration.initialize_broker`` -> ``Hydration.hydrate``.

The simulated host is a real directory tree under a private scratch directory (symlinks, '..' and realpath
are the kernel's) plus ``SimHostContext`` (a HostContext subclass answering commands from a table; ``grep`` and
``cp`` stay the real binaries).  An audit-hook monitor sees every open / mkdir / rename / symlink / Popen and
injects I/O faults at the n-th matching event; stored entries are corrupted between the two phases.
"""
import json
import os
import random
import shlex
import shutil
import tempfile

from simkit import bootstrap, HarnessError

bootstrap()

from simkit import registry                      # noqa: E402
from simkit.iomon import Monitor, Fault          # noqa: E402
from simkit.runner import Check, scratch_base    # noqa: E402
from simkit.seeds import digest                  # noqa: E402
from simkit.simclock import SimClock             # noqa: E402

from insights.core import dr, blacklist, spec_factory as sf, serde, hydration, filters   # noqa: E402
from insights.core.context import HostContext, SerializedArchiveContext                  # noqa: E402
from insights.core.exceptions import CalledProcessError, ContentException                # noqa: E402
from insights.core.plugins import datasource                                             # noqa: E402
from insights.core.serde import Hydration                                                # noqa: E402
from insights.core.spec_factory import (simple_file, glob_file, first_file, foreach_collect, simple_command,   # noqa: E402
                                         command_with_args, foreach_execute, container_execute, container_collect,
                                         RegistryPoint, SpecSet, RawFileProvider, TextFileProvider, DatasourceProvider,
                                         FileProvider, ContentProvider, CommandOutputProvider)
from insights.collect import apply_blacklist     # noqa: E402
import insights.specs.default                    # noqa: E402,F401  (symbolic deny entries resolve against DefaultSpecs: part of the base registry)
from insights.util import subproc, fs            # noqa: E402
import insights.util as iutil                    # noqa: E402
import errno                                     # noqa: E402

MOD = "vgen_w2"
import sys                                       # noqa: E402
import types                                     # noqa: E402
_mod = types.ModuleType(MOD)
sys.modules[MOD] = _mod

REAL_TOOLS = ("cp", "grep", "cat", "timeout", "rm", "tar")
_real_which = iutil.which


def V(oracle, cls, message):
    return {"oracle": oracle, "cls": cls, "message": message}


# ------------------------------------------------------------------------------------------------
# the simulated host
# ------------------------------------------------------------------------------------------------
class SimHostBase(HostContext):
    """HostContext whose commands are answered from a table (so every isinstance(ctx, HostContext) branch of the real
    code stays active); pipelines keep their real ``grep`` stage."""

    _table = _clock = _scratch = None          # set on the generated sub-class when collect() itself constructs the context
    _instances = None

    def __init__(self, root="/", table=None, clock=None, scratch=None, timeout=30):
        super(SimHostBase, self).__init__(root=root, timeout=timeout)
        self.table = table if table is not None else self._table
        self.clock = clock if clock is not None else self._clock
        self.scratch = scratch if scratch is not None else self._scratch
        self.executed = []
        if self._instances is not None:
            self._instances.append(self)

    def check_output(self, cmd, timeout=None, keep_rc=False, env=None, signum=None):
        if isinstance(cmd, list) and cmd and isinstance(cmd[0], list):
            stages = cmd
        elif isinstance(cmd, list):
            stages = [cmd]
        else:
            stages = [shlex.split(cmd)]
        first = " ".join(stages[0])
        self.executed.append(first)
        ent = self.table.get(first)
        if ent is None and os.path.basename(stages[0][0]) in REAL_TOOLS:
            # the pre-filtering ``grep`` of a filterable file spec reads the (scratch) file itself: run it for real
            self.clock.work(0.01)
            return subproc.call([list(st) for st in stages], keep_rc=keep_rc, env=env)
        if ent is None:
            raise CalledProcessError(127, first, "%s: command not found" % stages[0][0])
        self.clock.work(ent.get("duration", 0.01))
        rc, out = ent.get("rc", 0), ent["out"]
        if rc and not keep_rc:
            raise CalledProcessError(rc, first, out)
        if len(stages) > 1:
            tmp = os.path.join(self.scratch, "cmdout-%d" % len(self.executed))
            with open(tmp, "wb") as f:
                f.write(out.encode("utf-8"))
            try:
                res = subproc.call([["/bin/cat", tmp]] + [list(s) for s in stages[1:]], keep_rc=keep_rc, env=env)
            finally:
                os.remove(tmp)
            return res
        return (rc, out) if keep_rc else out


def make_which(table):
    bins = set(k.split()[0] for k in table)

    def sim_which(cmd, env=None):
        if os.path.basename(cmd) in REAL_TOOLS:
            return _real_which(cmd, env=env)
        if cmd in bins:
            return cmd
        return None
    return sim_which


# ------------------------------------------------------------------------------------------------
# generator
# ------------------------------------------------------------------------------------------------
UNICODE_POOL = ["\u00e9", "\u00fc\u00df", "\u4e2d\u6587", "\U0001f600", "\u0416", "\u00a0x", "\u200b", "\x0c", "\x85", "\u2028", "\x1c", "\x0b"]
ASCII = "abcdefghijklmnopqrstuvwxyzABCXYZ0123456789 .,:;/-_=+*#@!?()[]{}<>|&%$'\"\\~^`\t"


def gen_line(rng, rich):
    r = rng.random()
    if r < 0.12:
        return ""
    n = rng.choice([1, 3, 8, 20, 60])
    if rich and rng.random() < 0.02:
        n = rng.choice([1000, 20000, 100000])
    s = "".join(rng.choice(ASCII) for _ in range(min(n, 200)))
    if n > 200:
        s = s * (n // len(s))
    if rich and rng.random() < 0.25:
        k = rng.randrange(len(s) + 1)
        s = s[:k] + rng.choice(UNICODE_POOL) + s[k:]
    return s


os.environ["VERIF_W2_YEAR"] = "2024"          # part of the simulated collector's environment (see glob_file names)
os.environ.pop("VERIF_W2_UNSET", None)


def gen_content(rng, rich, tag):
    if rich and rng.random() < 0.012:
        # very many lines (a log): more than any block / batch size a writer might use, with empty lines sitting on
        # the power-of-two boundaries as well as anywhere else
        n = rng.choice([4097, 8191, 8192, 8193, 8200, 16384, 16400, 24577])
        lines = []
        for k in range(n):
            if ((k + 1) % 1024 == 0 and rng.random() < 0.5) or rng.random() < 0.01:
                lines.append("")
            else:
                lines.append("%s:%d" % (tag, k))
        return lines
    n = rng.choice([0, 1, 1, 2, 3, 5, 8]) if rich else rng.choice([1, 2, 3])
    lines = ["%s:%d:%s" % (tag, k, gen_line(rng, rich)) if rng.random() > 0.15 or not rich else gen_line(rng, rich) for k in range(n)]
    if rich:
        for _ in range(rng.choice([0, 0, 0, 1, 2])):
            lines.append("")                        # trailing empty lines
        if rng.random() < 0.15:
            lines.insert(0, "")                     # leading empty line
        if lines and rng.random() < 0.06:
            # a content that BEGINS with U+FEFF (a byte order mark when it is the first thing in a file, an ordinary
            # zero-width character of the first line everywhere else): what a codec with BOM handling treats specially
            lines[0] = "\ufeff" + (lines[0] if rng.random() < 0.8 else "")
    if not rich:
        lines = ["%s line %d" % (tag, k) for k in range(n)]
    return lines


def gen_case(st, tier, flavour):
    rp, rf, rk = st.prog, st.fault, st.knob
    if flavour == "C06" and st.sched.random() < float(os.environ.get("VERIF_W2C_RATE") or (0.012 if tier == "thorough" else 0.006)):
        # the import state of the process is a dimension too: collect() entered in a fresh interpreter (W2c)
        from worlds import w2_cold
        return w2_cold.gen_cold(st)
    rich = flavour == "C11"
    case = {"w": "w2", "flavour": flavour, "root_mode": "tree" if rk.random() < 0.8 else "slash",
            "sibling": rp.choice(["root2", "rootX", "root_backup", "root.old"]),
            "files": {}, "links": [], "outside": {}, "specs": [], "table": {}, "rm_conf": {}, "faults": [], "corrupt": [],
            "obfuscate": False, "hash_seed": rk.getrandbits(32), "entry": "collect" if rk.random() < 0.25 else "mirror"}
    files = case["files"]
    sib = case["sibling"]

    def add_file(rel, raw=False):
        if rel not in files:
            files[rel] = {"lines": gen_content(rp, rich, rel), "nl": rp.random() < 0.8}
        return "/" + rel

    outside = case["outside"]
    outside[sib + "/secret"] = ["SECRET-IN-SIBLING"]
    outside[sib + "/conf/z.conf"] = ["SECRET-IN-SIBLING-CONF"]
    outside["outside/secret"] = ["SECRET-OUTSIDE"]
    links = case["links"]

    def tricky_path(base_rel, allow=True):
        """A spec path for (normally) /base_rel, sometimes reaching out of the root through links or '..'."""
        canonical = "/" + base_rel
        if flavour != "C06" or not allow:
            return canonical, "canonical"
        r = rp.random()
        d = os.path.dirname(base_rel)
        depth = len([x for x in d.split("/") if x])
        up = "../" * depth
        nm = "lnk%d" % len(links)
        if r < 0.45:
            return canonical, "canonical"
        if r < 0.52:
            return "/" + d + "/../" + d + "/" + os.path.basename(base_rel), "dotdot-inside"
        if r < 0.60:
            links.append({"path": d + "/" + nm, "target": os.path.basename(base_rel)})
            return "/" + d + "/" + nm, "link-inside"
        if r < 0.68:
            links.append({"path": d + "/" + nm, "target": up + "../" + sib + "/secret"})
            return "/" + d + "/" + nm, "link-rel-sibling"
        if r < 0.74:
            links.append({"path": d + "/" + nm, "target": up + "../outside/secret"})
            return "/" + d + "/" + nm, "link-rel-outside"
        if r < 0.80:
            links.append({"path": d + "/" + nm, "target": "{BASE}/" + rp.choice([sib, "outside"]) + "/secret"})
            return "/" + d + "/" + nm, "link-abs"
        if r < 0.86:
            links.append({"path": d + "/" + nm + "a", "target": nm + "b"})
            links.append({"path": d + "/" + nm + "b", "target": nm + "c"})
            links.append({"path": d + "/" + nm + "c", "target": up + "../" + rp.choice([sib, "outside"]) + "/secret"})
            return "/" + d + "/" + nm + "a", "link-chain"
        if r < 0.91:
            n = rp.randint(1, 6)
            return "/" + "../" * n + rp.choice([sib, "outside"]) + "/secret", "dotdot-out"
        if r < 0.95:
            # a directory link to a place whose PARENT holds the secret, followed by '..': lexical normalisation says
            # "inside", the kernel resolves outside
            tgt = rp.choice([sib, "outside"])
            outside[tgt + "/sub/placeholder"] = ["placeholder"]
            links.append({"path": d + "/" + nm, "target": rp.choice([up + "../" + tgt + "/sub", "{BASE}/" + tgt + "/sub"])})
            return "/" + d + "/" + nm + "/../secret", "dirlink-then-dotdot"
        links.append({"path": d + "/" + nm, "target": up + "../" + rp.choice([sib, "outside"])})
        return "/" + d + "/" + nm + "/secret", "dirlink"

    specs = case["specs"]
    table = case["table"]

    def add_cmd(cmd, fail=False):
        if cmd not in table:
            ent = {"out": "\n".join(gen_content(rp, rich, cmd)) + "\n", "rc": 0, "duration": rp.choice([0.01, 0.5, 3.0])}
            if fail:
                ent["rc"] = rp.choice([1, 2, 127])
            table[cmd] = ent

    kinds = ["simple_file", "simple_file", "raw_file", "glob_file", "first_file", "foreach_collect", "simple_command",
             "command_with_args", "foreach_execute", "container_execute", "container_collect", "memory"]
    chosen = [k for k in kinds if rp.random() < 0.55] or ["simple_file"]
    rp.shuffle(chosen)
    file_bases = ["etc/hosts", "etc/fstab", "etc/sysconfig/net", "var/lib/data", "etc/motd", "etc/issue", "etc/my  app.conf"]
    rp.shuffle(file_bases)
    for i, k in enumerate(chosen):
        sp = {"name": "s%02d" % i, "factory": k, "save_as": None, "fail": False}
        if k in ("simple_file", "raw_file"):
            base = file_bases.pop()          # distinct specs persist to distinct locations
            add_file(base)
            sp["path"], sp["how"] = tricky_path(base)
            if rp.random() < 0.3:
                sp["save_as"] = rp.choice(["renamed_" + sp["name"], "saved/dir_%s/" % sp["name"], "{BASE}/absout/renamed_" + sp["name"]])
            if rf.random() < 0.1:
                sp["path"], sp["how"] = "/etc/does-not-exist", "missing"
            if k == "simple_file" and rk.random() < 0.06:
                sp["kind_sub"] = True            # simple_file(..., kind=<a sub-class of TextFileProvider>)
        elif k == "glob_file":
            d = rp.choice(["etc/conf.d", "etc/yum.repos.d"])
            for n in rp.sample(["a", "b", "c", "d"], rp.randint(0, 3)):
                add_file("%s/%s.conf" % (d, n))
            if flavour == "C06" and rp.random() < 0.15:
                # discovered names are taken literally: a '$NAME' in one of them is part of the name, whatever the
                # collector's environment holds (VERIF_W2_YEAR is set in the worker's environment, VERIF_W2_UNSET is not)
                add_file("%s/%s.conf" % (d, rp.choice(["u$VERIF_W2_YEAR", "v${VERIF_W2_YEAR}x", "w$VERIF_W2_UNSET", "$VERIF_W2_YEAR", "q%s~"])))
            sp["patterns"] = ["/%s/*.conf" % d]
            if flavour == "C06" and rp.random() < 0.35:
                links.append({"path": "%s/zlnk.conf" % d, "target": "../../../" + rp.choice([sib, "outside"]) + "/secret"})
            if flavour == "C06" and rp.random() < 0.2:
                links.append({"path": "etc/linked.d", "target": "../../" + sib + "/conf"})
                sp["patterns"].append("/etc/linked.d/*.conf")
            if rp.random() < 0.3:
                sp["save_as"] = rp.choice(["globbed_%s/" % sp["name"], "globbed_%s" % sp["name"], "{BASE}/absout/globbed_%s/" % sp["name"],
                                           "/{BASE}/absout/globbed2_%s//" % sp["name"]])
            if rp.random() < 0.2:
                sp["ignore"] = "b\\.conf$"
        elif k == "first_file":
            c = []
            for base in rp.sample(["etc/alt1", "etc/alt2", "etc/alt3"], rp.randint(1, 3)):
                if rp.random() < 0.6:
                    add_file(base)
                c.append(tricky_path(base, allow=rp.random() < 0.5)[0])
            sp["paths"] = c
        elif k == "foreach_collect":
            names = rp.sample(["one", "two", "three"], rp.randint(1, 3))
            for n in names:
                if rp.random() < 0.8:
                    add_file("var/log/%s.log" % n)
            sp["elems"] = names
            sp["path"] = "/var/log/%s.log"
            if rp.random() < 0.25:
                sp["save_as"] = rp.choice(["each_%s/" % sp["name"], "{BASE}/absout/each_%s/" % sp["name"], "{BASE}/absout/each2_%s" % sp["name"]])
            if flavour == "C06" and rp.random() < 0.3:
                links.append({"path": "var/log/evil.log", "target": "../../../" + sib + "/secret"})
                sp["elems"] = names + ["evil"]
            if flavour == "C06" and rp.random() < 0.15:
                sp["elems"] = names + ["../../../" + sib + "/secret"]
                sp["path"] = "/var/log/%s"
                for n in names:
                    pass
        elif k == "simple_command":
            cmd = rp.choice(["/bin/uname -a", "/usr/sbin/lsmod", "/bin/show all", "/bin/runas -l  db2  -c cfg",
                             "probetool", "probetool --verbose now"])      # (a bare command name, found through PATH)
            add_cmd(" ".join(cmd.split()), fail=rf.random() < 0.1)       # the table is keyed by what gets executed
            sp["cmd"] = cmd                                               # ... the spec may be spelled with runs of blanks
            if rp.random() < 0.25:
                sp["save_as"] = rp.choice(["cmd_saved_" + sp["name"], "{BASE}/absout/cmd_saved_%s/" % sp["name"]])
            if rf.random() < 0.08:
                sp["cmd"] = "/bin/notinstalled -x"
        elif k == "command_with_args":
            arg = rp.choice(["eth0", "lo", "/etc"])
            add_cmd("/bin/argcmd %s" % arg, fail=rf.random() < 0.1)
            sp["cmd"] = "/bin/argcmd %s"
            sp["arg"] = arg
        elif k == "foreach_execute":
            elems = rp.sample(["sda", "sdb", "sdc"], rp.randint(1, 3))
            for e in elems:
                add_cmd("/bin/blk %s" % e, fail=rf.random() < 0.15)
            sp["cmd"] = "/bin/blk %s"
            sp["elems"] = elems
        elif k == "container_execute":
            cs = rp.sample(["c1", "c2"], rp.randint(1, 2))
            for c in cs:
                add_cmd("/usr/bin/podman exec %s ps -ef" % c, fail=rf.random() < 0.1)
            sp["containers"] = cs
            sp["cmd"] = "ps -ef"
        elif k == "container_collect":
            cs = rp.sample(["c1", "c2"], rp.randint(1, 2))
            for c in cs:
                add_cmd("/usr/bin/podman exec %s cat /etc/os-release" % c, fail=rf.random() < 0.1)
            sp["containers"] = cs
            sp["path"] = "/etc/os-release"
        elif k == "memory":
            sp["lines"] = gen_content(rp, rich, "mem")
            sp["relative_path"] = rp.choice(["memory/spec_" + sp["name"], "{BASE}/absout/memory_" + sp["name"], "deep/er/mem"])
            if flavour == "C06" and rk.random() < 0.04:
                sp["relative_path"] = "../" * rp.randint(1, 3) + "escaped_" + sp["name"]
            if rp.random() < 0.2:
                sp["save_as"] = "mem_saved_%s/" % sp["name"]
            if rf.random() < 0.1:
                sp["fail"] = True
        specs.append(sp)
    if flavour == "C06" and case["root_mode"] == "slash" and rk.random() < 0.1:
        # K2 shape: a relative path whose '..' segments outnumber its leading components (legal under root '/')
        add_file("etc/hosts")
        specs.append({"name": "s%02d" % len(specs), "factory": "simple_file", "save_as": None, "fail": False,
                      "path": "DOTDOT:" + str(rp.randint(1, 4)) + ":etc/hosts", "how": "dotdot-root-slash"})
    # ---- deny list (C06): drawn from what the spec set would touch (canonical names only)
    if flavour == "C06":
        dfiles, dcmds, dcomps = [], [], []
        for sp in specs:
            if rk.random() < 0.3:
                if sp["factory"] in ("simple_file", "raw_file") and sp.get("how") == "canonical":
                    dfiles.append(sp["path"])
                elif sp["factory"] == "glob_file":
                    cands = sorted("/" + f for f in files if f.startswith(sp["patterns"][0].rsplit("/", 1)[0].lstrip("/") + "/"))
                    dfiles.extend(rk.sample(cands, min(len(cands), rk.randint(0, 2))))
                elif sp["factory"] == "first_file":
                    cands = [p for p in sp["paths"] if ".." not in p and "lnk" not in p]
                    dfiles.extend(cands[:1])
                elif sp["factory"] == "foreach_collect" and "%s.log" in sp["path"]:
                    e = [x for x in sp["elems"] if "/" not in x]
                    if e:
                        dfiles.append("/var/log/%s.log" % rk.choice(e))
                elif sp["factory"] == "simple_command":
                    dcmds.append(sp["cmd"] if rk.random() < 0.6 else rk.choice([sp["cmd"].split()[0], sp["cmd"].rsplit(" ", 1)[0]]))
                    if "/" not in dcmds[-1] and " " not in dcmds[-1] and rk.random() < 0.6:
                        dfiles.append(dcmds[-1])         # the same identifier-like word under files: too (it is not a spec name)
                elif sp["factory"] == "command_with_args":
                    dcmds.append(rk.choice(["/bin/argcmd %s" % sp["arg"], "/bin/argcmd"]))
                elif sp["factory"] == "foreach_execute":
                    dcmds.append(rk.choice(["/bin/blk %s" % rk.choice(sp["elems"]), "/bin/blk"]))
                elif sp["factory"] == "container_execute":
                    dcmds.append("/usr/bin/podman exec %s ps -ef" % rk.choice(sp["containers"]))
                elif sp["factory"] == "container_collect":
                    dcmds.append("/usr/bin/podman exec %s cat /etc/os-release" % rk.choice(sp["containers"]))
            elif rk.random() < 0.06:
                dcomps.append(sp["name"])
        if (dfiles or dcmds) and rk.random() < 0.25:
            # symbolic spec names (the other documented form of a deny entry) mixed in at any position: they switch off
            # DefaultSpecs.<name> and must not disturb the literal entries around them
            for lst in (dfiles, dcmds):
                if lst and rk.random() < 0.7:
                    for _ in range(rk.choice([1, 1, 2])):
                        lst.insert(rk.randrange(len(lst) + 1), rk.choice(["hostname", "uptime", "date", "ps_auxww", "not_a_spec_name"]))
        case["rm_conf"] = {"files": dfiles, "commands": dcmds, "components": dcomps}
        if rk.random() < 0.15:
            # a history of layouts seen by ONE context object: after the collection a directory the specs read from is
            # replaced by a link that leaves the root, and the same context evaluates the spec set again
            dirs = sorted(set("/".join(f.split("/")[:k]) for f in files for k in range(1, len(f.split("/")))))
            if dirs:
                case["relayout"] = {"dir": rk.choice(dirs)}
    # ---- faults during persist and corruption between the phases (C11)
    if flavour == "C11" and case["entry"] == "mirror" and rk.random() < 0.2:
        # parallel marshalling: Hydration(pool=...) serializes the elements of a multi-output spec on a pool
        case["marshal_pool"] = {"workers": rk.choice([2, 2, 3, 4]), "seed": rk.getrandbits(32), "p": rk.choice([0.05, 0.15, 0.3])}
    if flavour == "C11":
        if rf.random() < 0.3:
            for _ in range(rf.choice([1, 1, 2])):
                case["faults"].append({"kind": rf.choice(["write-open", "write-open", "mkdir", "short-data", "fail-data", "fail-meta"]),
                                       "nth": rf.choice([1, 1, 2, 3, 5]), "errno": rf.choice(["ENOSPC", "EIO"]),
                                       "after": rf.choice([0, 1, 7, 30])})
        if rk.random() < 0.12:
            case["load_via_link"] = True
        if case["entry"] == "mirror" and not case["faults"] and rk.random() < 0.15:
            # the archive directory is used a second time: the host's files and command outputs have become shorter and
            # the spec set is collected again into the SAME directory (collect() accepts an existing one)
            case["recollect"] = True
        if rf.random() < 0.45:
            for _ in range(rf.choice([1, 1, 2, 3])):
                case["corrupt"].append({"spec": rf.randrange(len(specs)),
                                        "how": rf.choice(["delete-meta", "truncate-meta", "garbage-meta", "wrong-shape-meta",
                                                          "rename-component", "delete-data", "truncate-data", "empty-meta",
                                                          "unknown-type", "extra-unknown-entry"]),
                                        "at": rf.random()})
    return case


# ------------------------------------------------------------------------------------------------
# materialising the host and building the spec set with the real factories
# ------------------------------------------------------------------------------------------------
class Env(object):
    def __init__(self, case):
        self.case = case
        # escapes through '..' (the K2 finding) must stay inside a directory that dies with the run, or a later run in the
        # same worker would find their left-overs: nest the simulated host a few levels below the per-run directory
        self.top = tempfile.mkdtemp(prefix="w2-", dir=scratch_base())
        self.base = os.path.join(self.top, "n1", "n2", "n3", "host")
        os.makedirs(self.base)
        self.tree = os.path.join(self.base, "root")
        self.out = os.path.join(self.base, "out", "insights-archive")
        self.tmp = os.path.join(self.base, "tmp")
        self.clock = SimClock()
        os.makedirs(self.tree)
        os.makedirs(self.out)
        os.makedirs(self.tmp)
        if case["root_mode"] == "tree":
            self.root = self.tree
            self.prefix = ""
        else:
            self.root = "/"
            self.prefix = self.tree

    def materialise(self):
        case = self.case
        for rel, spec in sorted(case["files"].items()):
            p = os.path.join(self.tree, rel)
            os.makedirs(os.path.dirname(p), exist_ok=True)
            data = "\n".join(spec["lines"]) + ("\n" if spec["nl"] and spec["lines"] else "")
            with open(p, "wb") as f:
                f.write(data.encode("utf-8"))
        for rel, lines in sorted(case["outside"].items()):
            p = os.path.join(self.base, rel)
            os.makedirs(os.path.dirname(p), exist_ok=True)
            with open(p, "w") as f:
                f.write("\n".join(lines) + "\n")
        for l in case["links"]:
            p = os.path.join(self.tree, l["path"])
            os.makedirs(os.path.dirname(p), exist_ok=True)
            if not os.path.lexists(p):
                os.symlink(l["target"].replace("{BASE}", self.base), p)

    def spec_path(self, p):
        """Spec paths are written against the host's root; under root '/' they carry the scratch prefix."""
        if p.startswith("DOTDOT:"):
            _, n, rel = p.split(":", 2)
            inner = os.path.join(self.tree, rel).lstrip("/")
            return "/" + "../" * int(n) + inner
        return self.prefix + p

    def close(self):
        shutil.rmtree(self.top, ignore_errors=True)


class Gds(object):
    """A generated helper datasource (callable instance, like the factories' own objects) with a seeded hash."""
    _verif_generated = True

    def __init__(self, name, fn, h):
        self.__name__ = name
        self.__qualname__ = name
        self.__module__ = MOD
        self.fn = fn
        self._h = h

    def __hash__(self):
        return self._h

    def __eq__(self, o):
        return self is o

    def __call__(self, broker):
        return self.fn(broker)


class SubTextFileProvider(TextFileProvider):
    """A user's own provider kind (simple_file(..., kind=...)): a sub-class without a serializer of its own."""
    pass


SubTextFileProvider.__module__ = MOD
_mod.SubTextFileProvider = SubTextFileProvider


def seeded_factory(cls):
    """The real factory class with a seeded __hash__: factory objects live in the engine's sets, and an address-based
    hash would leave the order in which specs are collected (hence the order of every I/O event) to the allocator."""
    class Seeded(cls):
        _verif_generated = True

        def __init__(self, *a, **kw):
            self._h = kw.pop("_h")
            super(Seeded, self).__init__(*a, **kw)

        def __hash__(self):
            return self._h

        def __eq__(self, o):
            return self is o

        def __ne__(self, o):
            return self is not o
    Seeded.__name__ = cls.__name__
    Seeded.__qualname__ = cls.__name__
    return Seeded


F = dict((c.__name__, seeded_factory(c)) for c in (simple_file, glob_file, first_file, foreach_collect, simple_command,
                                                   command_with_args, foreach_execute, container_execute, container_collect))


class SeededCtxMeta(type(HostContext)):
    def __hash__(cls):
        return cls._h

    def __eq__(cls, o):
        return cls is o

    def __ne__(cls, o):
        return cls is not o


def build_specs(case, env):
    """Creates the spec set through the real metaclass.  Returns (context class, {name: registry point}, {name: impl})."""
    from simkit.seeds import h64
    from worlds.w1_engine import RegistryPoint as SeededRegistryPoint
    hs = case.get("hash_seed", 0)

    def H(*parts):
        return h64(hs, *parts) % (1 << 40)
    n0 = len(type(HostContext).registry)
    Ctx = SeededCtxMeta("SimHostContext", (SimHostBase,), {"_h": H("ctx"), "__module__": MOD})
    base_body = {"__module__": MOD}
    impl_body = {"__module__": MOD}
    for sp in case["specs"]:
        # absolute-looking names carry the scratch prefix: if some code path ever used them as absolute paths the write
        # would land in the scratch area (and be reported), never in the sandbox's own root
        sp = dict(sp)
        for fld in ("save_as", "relative_path"):
            if isinstance(sp.get(fld), str):
                sp[fld] = sp[fld].replace("{BASE}", env.base)
        k = sp["factory"]
        name = sp["name"]
        multi = k in ("glob_file", "foreach_collect", "foreach_execute", "container_execute", "container_collect")
        base_body[name] = SeededRegistryPoint(name, H("rp", name), multi_output=multi, raw=(k == "raw_file"), **sp.get("rp_flags", {}))
        hh = H("impl", name)

        def helper_ds(suffix, fn):
            g = Gds(name + suffix, fn, H("helper", name))
            datasource(Ctx)(g)
            impl_body[name + suffix] = g
            return g
        if k in ("simple_file", "raw_file"):
            impl_body[name] = F["simple_file"](env.spec_path(sp["path"]), save_as=sp["save_as"], context=Ctx, _h=hh,
                                               kind=RawFileProvider if k == "raw_file" else (
                                                   SubTextFileProvider if sp.get("kind_sub") else TextFileProvider))
        elif k == "glob_file":
            impl_body[name] = F["glob_file"]([env.spec_path(p) for p in sp["patterns"]], save_as=sp["save_as"], ignore=sp.get("ignore"),
                                             context=Ctx, _h=hh)
        elif k == "first_file":
            impl_body[name] = F["first_file"]([env.spec_path(p) for p in sp["paths"]], context=Ctx, _h=hh)
        elif k == "foreach_collect":
            helper = helper_ds("_elems", lambda b, e=list(sp["elems"]): list(e))
            impl_body[name] = F["foreach_collect"](helper, env.spec_path(sp["path"]), save_as=sp.get("save_as"), context=Ctx, _h=hh)
        elif k == "simple_command":
            impl_body[name] = F["simple_command"](sp["cmd"], save_as=sp["save_as"], context=Ctx, _h=hh)
        elif k == "command_with_args":
            helper = helper_ds("_arg", lambda b, a=sp["arg"]: a)
            impl_body[name] = F["command_with_args"](sp["cmd"], helper, context=Ctx, _h=hh)
        elif k == "foreach_execute":
            helper = helper_ds("_elems", lambda b, e=list(sp["elems"]): list(e))
            impl_body[name] = F["foreach_execute"](helper, sp["cmd"], context=Ctx, _h=hh)
        elif k == "container_execute":
            helper = helper_ds("_cs", lambda b, cs=list(sp["containers"]): [("img-" + c, "podman", c) for c in cs])
            impl_body[name] = F["container_execute"](helper, sp["cmd"], context=Ctx, _h=hh)
        elif k == "container_collect":
            helper = helper_ds("_cs", lambda b, cs=list(sp["containers"]): [("img-" + c, "podman", c) for c in cs])
            impl_body[name] = F["container_collect"](helper, sp["path"], context=Ctx, _h=hh)
        elif k == "memory":
            def mem(broker, sp=sp):
                if sp["fail"]:
                    raise ValueError("in-memory datasource %s failed" % sp["name"])
                fl = sp.get("rp_flags", {})
                if sp.get("mem_ds"):
                    # a provider that names its datasource (ds=) AND carries exemptions of its own: the spec's
                    # declaration is what counts, the provider's own list is the caller's and must stay the caller's
                    return DatasourceProvider(list(sp["lines"]), relative_path=sp["relative_path"], save_as=sp["save_as"],
                                              ds=impl_body[sp["name"]], ctx=broker.get(Ctx), cleaner=broker.get("cleaner"),
                                              no_obfuscate=(list(sp.get("prov_no_obfuscate") or []) if PROV_EXEMPTIONS["on"] else []),
                                              no_redact=fl.get("no_redact", False))
                return DatasourceProvider(list(sp["lines"]), relative_path=sp["relative_path"], save_as=sp["save_as"],
                                          ctx=broker.get(Ctx), cleaner=broker.get("cleaner"),
                                          no_obfuscate=fl.get("no_obfuscate"), no_redact=fl.get("no_redact", False))
            g = Gds(name, mem, hh)
            datasource(Ctx)(g)
            impl_body[name] = g
        else:
            raise HarnessError("unknown factory %r" % k)
    Base = type("VSpecs", (SpecSet,), base_body)
    Impl = type("VDefault", (Base,), impl_body)
    _mod.VSpecs = Base                 # dr.set_enabled("<name>") imports components by name
    _mod.VDefault = Impl
    dr.COMPONENT_IMPORT_CACHE.clear()
    rps = dict((sp["name"], getattr(Base, sp["name"])) for sp in case["specs"])
    impls = dict((sp["name"], getattr(Impl, sp["name"])) for sp in case["specs"])
    return Ctx, rps, impls


def flatten(v):
    if v is None:
        return []
    return list(v) if isinstance(v, list) else [v]


class Seams(object):
    def __init__(self, env):
        self.env = env

    def __enter__(self):
        self.saved = (sf.which, serde.time, dr.time, getattr(sf, "open", None), getattr(serde, "open", None))
        sf.which = make_which(self.env.case["table"])
        serde.time = self.env.clock
        dr.time = self.env.clock
        return self

    def __exit__(self, *a):
        sf.which, serde.time, dr.time = self.saved[:3]
        for mod, old in ((sf, self.saved[3]), (serde, self.saved[4])):
            if old is None:
                if "open" in mod.__dict__:
                    del mod.__dict__["open"]
            else:
                mod.open = old
        return False


class FaultyFile(object):
    """File wrapper that fails or cuts a write after ``after`` bytes (torn / short write)."""

    def __init__(self, f, after, err, short, log):
        self.f = f
        self.left = after
        self.err = err
        self.short = short
        self.log = log

    def write(self, data):
        if len(data) <= self.left:
            self.left -= len(data)
            return self.f.write(data)
        self.f.write(data[:self.left])
        self.f.flush()
        self.log.append(("short" if self.short else "fail", getattr(self.f, "name", "?")))
        self.left = 0
        if self.short:
            self.left = -1
            return len(data)            # claims success: a short (lost) write
        raise OSError(self.err, os.strerror(self.err))

    def __getattr__(self, n):
        return getattr(self.f, n)

    def __enter__(self):
        return self

    def __exit__(self, *a):
        return self.f.__exit__(*a)


def install_write_faults(case, env, fired):
    """spec_factory.open / serde.open wrappers (module attributes shadow the builtin)."""
    import builtins
    # (copies: the case is the replay file, executing it must not write into it)
    plan = [dict(f) for f in case["faults"] if f["kind"] in ("short-data", "fail-data", "fail-meta")]
    if not plan:
        return
    counters = {"data": 0, "meta": 0}

    def make(mod_kind):
        def _open(path, mode="r", *a, **kw):
            f = builtins.open(path, mode, *a, **kw)
            if not any(ch in mode for ch in "wa"):
                return f
            counters[mod_kind] += 1
            for p in plan:
                want = "meta" if p["kind"] == "fail-meta" else "data"
                if want == mod_kind and p["nth"] == counters[mod_kind] and not p.get("_done"):
                    p["_done"] = True
                    return FaultyFile(f, p["after"], getattr(errno, p["errno"]), p["kind"] == "short-data", fired)
            return f
        return _open
    sf.open = make("data")
    serde.open = make("meta")


# ------------------------------------------------------------------------------------------------
# the two phases
# ------------------------------------------------------------------------------------------------
class Collected(object):
    pass


def collect_phase(case, env, Ctx, rps, impls, stats):
    """Mirror of insights.collect.collect() lines 217-267 on the generated spec set."""
    c = Collected()
    rm = dict(case["rm_conf"])
    if rm.get("files"):
        # the user names files the way the spec does: against the host's root
        rm["files"] = [(env.prefix + f if f.startswith("/") else f) for f in rm["files"]]
    if rm.get("components"):
        rm["components"] = [dr.get_name(impls[n]) for n in rm["components"] if n in impls]
    c.rm = rm
    apply_blacklist(dict(rm))
    fs.touch(os.path.join(env.out, "insights_archive.txt"))
    broker = dr.Broker()
    ctx = Ctx(env.root, case["table"], env.clock, env.tmp)
    broker[Ctx] = ctx
    broker["cleaner"] = None
    broker["redact_config"] = dict(case["rm_conf"])
    broker["client_config"] = None
    graph = {}
    for rp in rps.values():
        graph.update(dr.get_dependency_graph(rp))
    to_persist = set(rps.values())
    snapshots = {}

    # what the persister is about to write: taken from the provider's own content at persist time
    def snap(comp, b):
        if comp in to_persist and comp in b:
            recs = []
            for p in flatten(b[comp]):
                rec = {"cls": type(p).__name__, "cmd": getattr(p, "cmd", None), "args": getattr(p, "args", None),
                       "relative_path": p.relative_path, "save_as": p.save_as}
                try:
                    if isinstance(p, RawFileProvider):
                        with open(p.path, "rb") as f:
                            rec["bytes"] = f.read()
                    else:
                        rec["lines"] = list(p.content)
                except Exception as e:
                    rec["error"] = type(e).__name__
                recs.append(rec)
            snapshots[dr.get_name(comp)] = recs
    simpool = None
    if case.get("marshal_pool"):
        from simkit.simpool import SimPool
        mp = case["marshal_pool"]
        simpool = SimPool(random.Random(mp["seed"]), max_workers=mp["workers"], policy={"kind": "walk", "p": mp["p"]},
                          traced_files=(serde.__file__, sf.__file__))
        stats["probes"]["cases_with_marshal_pool"] = 1
    h = Hydration(env.out, ctx, pool=simpool)
    persister = h.make_persister(to_persist)
    c.faulted = {}          # component name -> what kind of persist fault hit it

    def observer(comp, b):
        if case["flavour"] == "C11":
            # the snapshot reads (and caches) the content: only taken where the round trip is the subject; for C06 every
            # open must happen under the monitor's eyes
            mon.enabled = False
            try:
                snap(comp, b)
            finally:
                mon.enabled = True
        n0, m0 = len(mon.fired), len(fired_writes)
        try:
            persister(comp, b)
        finally:
            kinds = []
            for k, path, _ in mon.fired[n0:]:
                if k == "mkdir" and not path.startswith(os.path.join(env.out, "data", "")):
                    kinds.append("setup-error")          # creating meta_data/ or data/ itself failed: nothing of this entry is kept
                else:
                    kinds.append("data-error" if os.path.join(env.out, "data") in path else "meta-error")
            for k, nm in fired_writes[m0:]:
                where = "data" if os.path.join(env.out, "data") in str(nm) else "meta"
                kinds.append("%s-%s" % (where, "short" if k == "short" else "error"))
            if kinds:
                c.faulted[dr.get_name(comp)] = kinds
    fired_writes = []
    faults = [Fault(f["kind"], f["nth"], getattr(errno, f["errno"]), under=env.out) for f in case["faults"]
              if f["kind"] in ("write-open", "mkdir")]
    install_write_faults(case, env, fired_writes)
    mon = Monitor(root=env.base, faults=faults)
    broker.add_observer(observer)
    escaped = None
    with mon:
        try:
            dr.run_all(graph, broker, None)
        except HarnessError:
            raise
        except Exception as e:
            escaped = e
        finally:
            if simpool is not None:
                simpool.shutdown()
    if simpool is not None:
        stats["probes"]["marshal_pool_switches"] = stats["probes"].get("marshal_pool_switches", 0) + len(simpool.switches)
    c.broker = broker
    c.ctx = ctx
    c.mon = mon
    c.snapshots = snapshots
    c.escaped = escaped
    c.fired = [(k, errno.errorcode.get(e, e)) for k, _, e in mon.fired] + [(k, "data") for k, _ in fired_writes]
    for k, e in c.fired:
        stats["faults_fired"]["%s:%s" % (k, e)] = stats["faults_fired"].get("%s:%s" % (k, e), 0) + 1
    return c


class Spy(object):
    """Global observer (dr.add_observer) with a seeded hash: gets hold of the broker collect() creates internally."""
    _verif_generated = True

    def __init__(self, fn, h):
        self.fn = fn
        self._h = h
        self.__name__ = "spy"

    def __hash__(self):
        return self._h

    def __eq__(self, o):
        return self is o

    def __call__(self, comp, broker):
        self.fn(comp, broker)


def collect_phase_real(case, env, Ctx, rps, impls, stats):
    """The real entry point: insights.collect.collect() with a manifest naming the simulated context and the generated
    spec package (so manifest handling, apply_default_enabled / apply_configs / apply_blacklist ordering, persist
    selection and the run strategy are the code's own)."""
    from insights import collect as collect_mod
    c = Collected()
    rm = dict(case["rm_conf"])
    if rm.get("files"):
        rm["files"] = [(env.prefix + f if f.startswith("/") else f) for f in rm["files"]]
    if rm.get("components"):
        rm["components"] = [dr.get_name(impls[n]) for n in rm["components"] if n in impls]
    c.rm = rm
    Ctx._table, Ctx._clock, Ctx._scratch, Ctx._instances = case["table"], env.clock, env.tmp, []
    _mod.SimHostContext = Ctx
    dr.COMPONENT_IMPORT_CACHE.clear()
    manifest = {"version": 0,
                "client": {"context": {"class": MOD + ".SimHostContext", "args": {"root": env.root}},
                           "blacklist": {"files": [], "commands": [], "patterns": [], "keywords": []},
                           "persist": [{"name": MOD + ".VSpecs", "enabled": True}],
                           "run_strategy": {"name": "serial", "args": {"max_workers": None}}},
                "plugins": {"default_component_enabled": False, "packages": [],
                            "configs": [{"name": MOD + ".VDefault", "enabled": True}, {"name": MOD + ".VSpecs", "enabled": True}]}}
    to_persist = set(rps.values())
    snapshots = {}
    brokers = []
    fired_writes = []
    # faults hit the persist area (meta_data/, data/); an I/O error while collect() sets up its working directory aborts
    # the collection as a whole, which no listed property speaks about
    area = (os.path.join(env.out, "meta_data"), os.path.join(env.out, "data"))
    faults = [Fault(f["kind"], f["nth"], getattr(errno, f["errno"]), under=area) for f in case["faults"]
              if f["kind"] in ("write-open", "mkdir")]
    install_write_faults(case, env, fired_writes)
    mon = Monitor(root=env.base, faults=faults)

    def spy(comp, b):
        if not brokers:
            brokers.append(b)
        if case["flavour"] == "C11" and comp in to_persist and comp in b:
            mon.enabled = False
            try:
                recs = []
                for p in flatten(b[comp]):
                    rec = {"cls": type(p).__name__, "cmd": getattr(p, "cmd", None), "args": getattr(p, "args", None),
                           "relative_path": p.relative_path, "save_as": p.save_as}
                    try:
                        if isinstance(p, RawFileProvider):
                            with open(p.path, "rb") as f:
                                rec["bytes"] = f.read()
                        else:
                            rec["lines"] = list(p.content)
                    except Exception as e:
                        rec["error"] = type(e).__name__
                    recs.append(rec)
                snapshots[dr.get_name(comp)] = recs
            finally:
                mon.enabled = True
    from simkit.seeds import h64
    dr.add_observer(Spy(spy, h64(case.get("hash_seed", 0), "spy") % (1 << 40)), dr.ComponentType)
    escaped = None
    with mon:
        try:
            collect_mod.collect(client_config=None, rm_conf=dict(rm), tmp_path=os.path.dirname(env.out),
                                archive_name=os.path.basename(env.out), manifest=manifest)
        except HarnessError:
            raise
        except Exception as e:
            escaped = e
    c.broker = brokers[0] if brokers else dr.Broker()
    ctxs = Ctx._instances or []
    c.ctx = ctxs[0] if ctxs else Ctx(env.root)
    c.mon = mon
    c.snapshots = snapshots
    c.escaped = escaped
    c.fired = [(k, errno.errorcode.get(e, e)) for k, _, e in mon.fired] + [(k, "data") for k, _ in fired_writes]
    for k, e in c.fired:
        stats["faults_fired"]["%s:%s" % (k, e)] = stats["faults_fired"].get("%s:%s" % (k, e), 0) + 1
    stats["probes"]["real_collect_entry_point"] = stats["probes"].get("real_collect_entry_point", 0) + 1
    return c


def load_phase(env, stats=None):
    """Mirror of analysis: the real archive detection + hydration into a fresh broker."""
    if env.case.get("load_via_link"):
        # archives are reached through a 'current' link: first it names an older archive (a copy, loaded and thrown
        # away), then it is re-pointed at the archive under test, which is loaded through the same path
        prev = os.path.join(env.base, "out-previous", "insights-archive")
        shutil.copytree(env.out, prev, symlinks=True)
        link = os.path.join(env.base, "current")
        os.symlink(prev, link)
        try:
            hydration.initialize_broker(link)
        except HarnessError:
            raise
        except Exception:
            pass
        os.remove(link)
        os.symlink(env.out, link)
        if stats is not None:
            stats["probes"]["archive_loaded_through_repointed_link"] = 1
        ctx, broker = hydration.initialize_broker(link)
        return ctx, broker
    ctx, broker = hydration.initialize_broker(env.out)
    return ctx, broker


# ------------------------------------------------------------------------------------------------
# C06 oracles
# ------------------------------------------------------------------------------------------------
def inside(path, root):
    rp = os.path.realpath(path)
    rr = os.path.realpath(root)
    return rp == rr or rp.startswith(os.path.join(rr, ""))


def oracle_c06(case, env, c, rps, impls, stats):
    viols = []
    if c.escaped is not None:
        viols.append(V("C06.escape", "escape:%s" % type(c.escaped).__name__, "collection raised %r" % (c.escaped,)))
        return viols
    how_of = dict((sp["name"], sp.get("how", sp["factory"])) for sp in case["specs"])
    fac_of = dict((sp["name"], sp["factory"]) for sp in case["specs"])
    realroot = os.path.realpath(env.root)
    # (a) containment: no file provider for a real location outside the root
    for name, rp in rps.items():
        for holder in (rp, impls[name]):
            for p in flatten(c.broker.get(holder)):
                if isinstance(p, FileProvider):
                    stats["probes"]["file_providers_checked"] = stats["probes"].get("file_providers_checked", 0) + 1
                    if not inside(p.path, env.root):
                        real = os.path.realpath(p.path)
                        try:
                            leak = p.content if not isinstance(p, RawFileProvider) else [p.content.decode("utf-8", "replace")]
                        except Exception as e:
                            leak = ["<unreadable: %s>" % type(e).__name__]
                        shares = real.startswith(realroot) and not real.startswith(os.path.join(realroot, ""))
                        viols.append(V("C06.containment", "outside-root:%s%s" % (fac_of[name], ":sibling-shares-root-prefix" if shares else ""),
                                       "%s (%s, %s) yields a provider for %s whose real location %s is outside root %s; content %r" % (
                                           name, fac_of[name], how_of[name], p.path[len(env.base):], real[len(env.base):],
                                           realroot[len(env.base):], leak[:1])))
            break
    # (b) deny list
    rm = c.rm
    dfiles = set(rm.get("files", []))
    dcmds = list(rm.get("commands", []))
    strip = len(env.tree) if case["root_mode"] == "tree" else 0
    for kind, path, extra in c.mon.events:
        if kind in ("read-open", "write-open") or kind == "popen":
            cands = [path] if kind != "popen" else [a for a in (extra or [])]
            for x in cands:
                if not isinstance(x, str) or not x.startswith(env.tree):
                    continue
                if x[strip:] in dfiles:
                    viols.append(V("C06.deny", "denied-file-opened", "%s touched %s which the deny list names (%s)" % (kind, x[strip:], sorted(dfiles))))
    for first in c.ctx.executed:
        for dc in dcmds:
            dcn = " ".join(dc.split())          # the executed command line is re-joined with single blanks
            if first == dcn or first.startswith(dcn + " "):
                viols.append(V("C06.deny", "denied-command-executed", "command %r was executed although the deny list names %r" % (first, dc)))
    for fq in rm.get("components", []):
        for name, im in impls.items():
            if dr.get_name(im) == fq and (im in c.broker or im in c.broker.exceptions or rps[name] in c.broker):
                viols.append(V("C06.deny", "disabled-component-ran", "component %s is disabled by the deny list but left a result" % fq))
    if dfiles or dcmds:
        stats["probes"]["cases_with_deny_list"] = 1
    # (c) writes beneath the output directory
    outreal = os.path.realpath(env.out)
    seen = set()
    dotdot = any(os.path.normpath(getattr(p, "relative_path", "") or "").startswith("..")
                 for rp in rps.values() for p in flatten(c.broker.get(rp)) if isinstance(p, ContentProvider))
    for kind, path, extra in c.mon.events:
        dst = None
        if kind in ("write-open", "mkdir", "remove", "rmdir", "truncate"):
            dst = path
        elif kind in ("rename", "symlink", "link", "copyfile", "move"):
            dst = extra
        elif kind == "popen" and extra and os.path.basename(extra[0]) == "cp":
            dst = extra[-1]
        if dst is None or not isinstance(dst, str):
            continue
        if dst.startswith(env.tmp):
            continue                      # the simulated host's own temp files (command output handed to the real grep)
        real = os.path.realpath(dst)
        if not (real == outreal or real.startswith(os.path.join(outreal, ""))):
            if (kind, real) in seen:
                continue
            seen.add((kind, real))
            viols.append(V("C06.writes", "write-outside-output%s" % (":relative-path-starts-with-dotdot" if dotdot else ":" + kind),
                           "%s of %s resolves to %s, not beneath the output directory %s" % (
                               kind, dst.replace(env.base, "<scratch>"), real.replace(env.base, "<scratch>"), outreal.replace(env.base, "<scratch>"))))
    stats["probes"]["io_events_monitored"] = stats["probes"].get("io_events_monitored", 0) + len(c.mon.events)
    # second, independent witness: walk the scratch area
    for d, _, fnames in os.walk(env.base):
        for fn in fnames:
            p = os.path.join(d, fn)
            if p.startswith(env.out) or p.startswith(env.tmp):
                continue
            rel = os.path.relpath(p, env.base)
            known = rel in case["outside"] or (rel.startswith("root/") and rel[5:] in case["files"])
            if not known and not os.path.islink(p):
                viols.append(V("C06.writes", "stray-file-outside-output%s" % (":relative-path-starts-with-dotdot" if dotdot else ""),
                               "file %s appeared outside the output directory" % rel))
    return viols


# ------------------------------------------------------------------------------------------------
# C11 oracles
# ------------------------------------------------------------------------------------------------
def strip_one_trailing_empty(lines):
    return lines[:-1] if lines and lines[-1] == "" else lines


def corrupt_archive(case, env, rps, stats):
    """Between collect and load: damage a subset of entries.  Returns {component name: how}."""
    touched = {}
    meta = os.path.join(env.out, "meta_data")
    for cor in case["corrupt"]:
        sp = case["specs"][cor["spec"] % len(case["specs"])]
        name = dr.get_name(rps[sp["name"]])
        path = os.path.join(meta, name + ".json")
        how = cor["how"]
        if how == "extra-unknown-entry":
            if os.path.isdir(meta):
                with open(os.path.join(meta, "not.a.loaded.Component.json"), "w") as f:
                    json.dump({"name": "not.a.loaded.Component", "exec_time": 0.1, "ser_time": 0.1, "errors": [],
                               "results": {"type": "insights.core.spec_factory.TextFileProvider", "object": {"relative_path": "x", "rc": None, "save_as": False}}}, f)
                stats["faults_fired"]["corrupt:" + how] = stats["faults_fired"].get("corrupt:" + how, 0) + 1
            continue
        if not os.path.exists(path) or name in touched:
            continue
        doc_text = open(path).read()
        if how == "delete-meta":
            os.remove(path)
        elif how == "truncate-meta":
            with open(path, "w") as f:
                f.write(doc_text[:int(len(doc_text) * cor["at"])])
        elif how == "garbage-meta":
            with open(path, "wb") as f:
                f.write(b"\x00\xff not json {{{")
        elif how == "empty-meta":
            open(path, "w").close()
        elif how == "wrong-shape-meta":
            with open(path, "w") as f:
                json.dump(random.Random(int(cor["at"] * 1000)).choice([[1, 2, 3], {"name": name}, "just a string", {"name": name, "exec_time": 1, "ser_time": 1, "results": 5, "errors": []}, None, 42]), f)
        elif how == "rename-component":
            doc = json.loads(doc_text)
            doc["name"] = "vgen_w2.VSpecs.no_such_spec"
            with open(path, "w") as f:
                json.dump(doc, f)
        elif how == "unknown-type":
            doc = json.loads(doc_text)
            res = doc.get("results")
            if isinstance(res, list) and res:
                res[0]["type"] = "no.such.Provider"
            elif isinstance(res, dict):
                res["type"] = "no.such.Provider"
            else:
                continue
            with open(path, "w") as f:
                json.dump(doc, f)
        elif how in ("delete-data", "truncate-data"):
            doc = json.loads(doc_text)
            res = doc.get("results")
            items = res if isinstance(res, list) else ([res] if res else [])
            if not items:
                continue
            rel = items[int(cor["at"] * len(items)) % len(items)]["object"]["relative_path"]
            dp = os.path.join(env.out, "data", rel)
            if not os.path.isfile(dp):
                continue
            if how == "delete-data":
                os.remove(dp)
            else:
                data = open(dp, "rb").read()
                with open(dp, "wb") as f:
                    f.write(data[:int(len(data) * cor["at"])])
        touched[name] = how
        stats["faults_fired"]["corrupt:" + how] = stats["faults_fired"].get("corrupt:" + how, 0) + 1
    return touched


def oracle_c11(case, env, c, rps, impls, stats):
    viols = []
    if c.escaped is not None:
        viols.append(V("C11.escape", "collect-escape:%s" % type(c.escaped).__name__, "collection raised %r" % (c.escaped,)))
        return viols
    per_comp = getattr(c, "faulted", None)
    # mirror mode knows which component was being persisted when a fault fired: only that entry is "damaged"; the real
    # collect() entry does not expose that, there a persist-time fault relaxes the whole archive
    faulted_persist = bool(c.fired) and per_comp is None
    faulted_comps = per_comp or {}
    meta = os.path.join(env.out, "meta_data")
    # what is on disk after collection
    stored = {}
    if os.path.isdir(meta):
        for fn in sorted(os.listdir(meta)):
            try:
                stored[fn[:-5]] = json.load(open(os.path.join(meta, fn)))
            except ValueError:
                stored[fn[:-5]] = None
                if not faulted_persist and fn[:-5] not in faulted_comps:
                    viols.append(V("C11.persist", "metadata-not-json", "%s is not valid JSON after a fault-free collection" % fn))
    # failed components are persisted with their errors
    for name, rp in rps.items():
        fq = dr.get_name(rp)
        excs = [e for e in c.broker.exceptions.get(rp, [])]
        if fq in faulted_comps and faulted_comps[fq] == ["data-error"] and isinstance(stored.get(fq), dict):
            # a data file could not be written: the entry must say so (the component failed, at least in part)
            stats["probes"]["data_write_failures_checked"] = stats["probes"].get("data_write_failures_checked", 0) + 1
            if not stored[fq].get("errors"):
                viols.append(V("C11.persist", "failed-data-write-persisted-without-errors",
                               "%s: writing a data file failed (%s) but the stored entry lists no error" % (name, faulted_comps[fq])))
        if excs and not faulted_persist and fq not in faulted_comps:
            doc = stored.get(fq)
            tbs = [c.broker.tracebacks.get(e) for e in excs]
            if doc is None:
                viols.append(V("C11.persist", "failed-component-not-persisted", "%s failed (%s) but has no metadata document" % (name, type(excs[0]).__name__)))
            elif any(tb not in (doc.get("errors") or []) for tb in tbs if tb):
                viols.append(V("C11.persist", "errors-missing-from-metadata", "%s: recorded tracebacks are not all in the stored errors" % name))
            stats["probes"]["failed_components_checked"] = stats["probes"].get("failed_components_checked", 0) + 1
    touched = corrupt_archive(case, env, rps, stats)
    # ---- load
    try:
        ctx, lb = load_phase(env, stats)
    except HarnessError:
        raise
    except Exception as e:
        viols.append(V("C11.load", "load-raised:%s%s" % (type(e).__name__, ":after-corruption" if touched or faulted_persist else ""),
                       "loading the archive raised %r (corrupted: %s, persist faults: %s)" % (e, touched, c.fired)))
        return viols
    if not isinstance(ctx, SerializedArchiveContext):
        viols.append(V("C11.load", "archive-not-recognised", "context is %s" % type(ctx).__name__))
        return viols
    for name, rp in rps.items():
        fq = dr.get_name(rp)
        doc = stored.get(fq)
        damaged = fq in touched or faulted_persist or fq in faulted_comps
        res = doc.get("results") if isinstance(doc, dict) else None
        items = res if isinstance(res, list) else ([res] if res else [])
        snaps = [s for s in c.snapshots.get(fq, [])]
        loaded = flatten(lb.get(rp)) if rp in lb else []
        if not items:
            if loaded and not damaged:
                viols.append(V("C11.roundtrip", "loaded-without-stored-results", "%s: nothing stored but %d providers loaded" % (name, len(loaded))))
            continue
        if damaged:
            # may be absent; if present, never with different content (a truncated data file is what is on disk: prefix)
            for p in loaded:
                try:
                    got = p.content
                except Exception:
                    continue
                cands = [s for s in snaps if "lines" in s]
                if isinstance(got, list) and cands and not any(_is_prefix_text(got, s["lines"]) for s in cands):
                    viols.append(V("C11.load", "damaged-entry-loaded-with-foreign-content", "%s (%s): loaded %r matches no persisted element" % (name, touched.get(fq), got[:2])))
            stats["probes"]["damaged_entries_tolerated"] = stats["probes"].get("damaged_entries_tolerated", 0) + 1
            continue
        # ---- strict round trip for untouched entries
        stats["probes"]["entries_round_tripped"] = stats["probes"].get("entries_round_tripped", 0) + 1
        if len(loaded) != len(items):
            viols.append(V("C11.roundtrip", "entry-lost-on-load:%s" % type_of(items), "%s: %d stored elements, %d loaded (another entry corrupted: %s)" % (
                name, len(items), len(loaded), sorted(touched.values()))))
            continue
        # stored elements correspond, in order, to the snapshots that serialised successfully
        ok_snaps = [s for s in snaps if "error" not in s and (s.get("lines") or s.get("bytes"))]
        if len(ok_snaps) != len(items):
            ok_snaps = None
        for k, (it, p) in enumerate(zip(items, loaded)):
            obj = it["object"]
            kind = it["type"].rsplit(".", 1)[1]
            if p.relative_path != obj["relative_path"]:
                viols.append(V("C11.roundtrip", "relative-path-differs:%s" % kind, "%s[%d]: loaded %r, stored %r" % (name, k, p.relative_path, obj["relative_path"])))
            if "cmd" in obj and p.cmd != obj["cmd"]:
                viols.append(V("C11.roundtrip", "cmd-differs:%s" % kind, "%s[%d]: loaded %r, stored %r" % (name, k, p.cmd, obj["cmd"])))
            if "args" in obj and _listify(p.args) != _listify(obj["args"]):
                viols.append(V("C11.roundtrip", "args-differ:%s" % kind, "%s[%d]: loaded %r, stored %r" % (name, k, p.args, obj["args"])))
            dp = os.path.join(env.out, "data", obj["relative_path"])
            if not inside(dp, os.path.join(env.out, "data")):
                continue
            if ok_snaps is None:
                continue
            s = ok_snaps[k]
            persists_cmd = kind in ("CommandOutputProvider", "ContainerCommandProvider")
            if persists_cmd and "cmd" not in obj:
                viols.append(V("C11.roundtrip", "cmd-not-stored:%s" % kind, "%s[%d]: the stored entry has no command" % (name, k)))
            if persists_cmd and "args" not in obj:
                viols.append(V("C11.roundtrip", "args-not-stored:%s" % kind, "%s[%d]: the stored entry has no arguments" % (name, k)))
            if not persists_cmd:
                pass
            elif s.get("cmd") is not None and p.cmd != s["cmd"]:
                viols.append(V("C11.roundtrip", "cmd-differs-from-collected:%s" % kind, "%s[%d]: loaded %r, collected %r" % (name, k, p.cmd, s["cmd"])))
            if persists_cmd and s.get("args") is not None and _listify(p.args) != _listify(s["args"]):
                viols.append(V("C11.roundtrip", "args-differ-from-collected:%s" % kind, "%s[%d]: loaded %r, collected %r" % (name, k, p.args, s["args"])))
            try:
                got = p.content
            except Exception as e:
                viols.append(V("C11.roundtrip", "content-unreadable:%s" % kind, "%s[%d]: %r" % (name, k, e)))
                continue
            if "bytes" in s:
                if got != s["bytes"]:
                    viols.append(V("C11.roundtrip", "raw-content-differs", "%s[%d]: %d bytes loaded, %d persisted" % (name, k, len(got), len(s["bytes"]))))
            else:
                want = s["lines"]
                if got != want and got != strip_one_trailing_empty(want):
                    first = [(a, b) for a, b in zip(got, want) if a != b][:1]
                    viols.append(V("C11.roundtrip", "content-differs:%s:%s" % (kind, "line-count" if not first else "line-text"),
                                   "%s[%d]: loaded %d lines, persisted %d; first difference %r" % (name, k, len(got), len(want), first)))
    return viols


def type_of(items):
    return items[0]["type"].rsplit(".", 1)[1] if items else "?"


def _listify(x):
    if isinstance(x, tuple):
        return [_listify(y) for y in x]
    if isinstance(x, list):
        return [_listify(y) for y in x]
    return x


def _is_prefix_text(got, want):
    """A truncated data file loads as a byte prefix of what was persisted (possibly cut inside a character)."""
    a = "\n".join(got).encode("utf-8", "surrogateescape")
    b = "\n".join(want).encode("utf-8", "surrogateescape")
    return b.startswith(a.rstrip(b"\n")) or a == b


# ------------------------------------------------------------------------------------------------
# executor + checks
# ------------------------------------------------------------------------------------------------
def relayout_phase(case, env, c, Ctx, rps, impls, stats):
    """The layout changes between two evaluations that share one context object: a directory is replaced by a link to a
    copy of itself OUTSIDE the root.  Nothing below it may be yielded any more."""
    viols = []
    d = os.path.join(env.tree, case["relayout"]["dir"])
    if os.path.islink(d) or not os.path.isdir(d):
        return viols
    out = os.path.join(env.base, "relayout-outside")
    shutil.copytree(d, out, symlinks=True)
    for dp, _dn, fn in os.walk(out):
        for f in fn:
            fp = os.path.join(dp, f)
            if not os.path.islink(fp):
                with open(fp, "w") as fh:
                    fh.write("OUTSIDE-AFTER-RELAYOUT %s\n" % f)
    os.rename(d, d + ".moved-away")
    os.symlink(out, d)
    stats["probes"]["relayout_second_evaluation_on_same_context"] = 1
    graph = {}
    for rp in rps.values():
        graph.update(dr.get_dependency_graph(rp))
    b2 = dr.Broker()
    b2[Ctx] = c.ctx
    b2["cleaner"] = None
    b2["redact_config"] = dict(case["rm_conf"])
    b2["client_config"] = None
    try:
        dr.run_all(graph, b2, None)
    except HarnessError:
        raise
    except Exception as e:
        viols.append(V("C06.escape", "escape-after-relayout:%s" % type(e).__name__, "second evaluation raised %r" % (e,)))
        return viols
    fac_of = dict((sp["name"], sp["factory"]) for sp in case["specs"])
    for name, rp in rps.items():
        for p in flatten(b2.get(rp)):
            if isinstance(p, FileProvider) and not inside(p.path, env.root):
                try:
                    leak = p.content if not isinstance(p, RawFileProvider) else [p.content.decode("utf-8", "replace")]
                except Exception as e:
                    leak = ["<unreadable: %s>" % type(e).__name__]
                viols.append(V("C06.containment", "outside-root:%s:after-relayout" % fac_of[name],
                               "%s (%s): after %s became a link leaving the root, the same context yields a provider for %s "
                               "(real location %s); content %r" % (name, fac_of[name], case["relayout"]["dir"], p.path[len(env.base):],
                                                                    os.path.realpath(p.path)[len(env.base):], leak[:1])))
    return viols


def run_case(case, flavour):
    if case.get("cold"):
        from worlds import w2_cold
        return w2_cold.run_cold(case)
    stats = {"faults_fired": {}, "probes": {}}
    env = Env(case)
    viols = []
    log = []
    try:
        env.materialise()
        with registry.scope():
            with Seams(env):
                Ctx, rps, impls = build_specs(case, env)
                if case.get("entry") == "collect":
                    c = collect_phase_real(case, env, Ctx, rps, impls, stats)
                else:
                    c = collect_phase(case, env, Ctx, rps, impls, stats)
                    if case.get("recollect") and flavour == "C11" and c.escaped is None:
                        # second use of the same archive directory, with shorter content everywhere
                        for rel, spec in sorted(case["files"].items()):
                            fp = os.path.join(env.tree, rel)
                            if os.path.isfile(fp) and not os.path.islink(fp) and spec["lines"]:
                                keep = spec["lines"][:max(1, len(spec["lines"]) // 2)]
                                keep = keep[:-1] + [keep[-1][:max(1, len(keep[-1]) // 2)]]
                                with open(fp, "wb") as fh:
                                    fh.write(("\n".join(keep) + ("\n" if spec["nl"] else "")).encode("utf-8"))
                        case = dict(case, table=dict((k, dict(v, out=(v["out"].split("\n")[0][:3] + "\n") if v.get("out") else v.get("out")))
                                                     for k, v in case["table"].items()))
                        c = collect_phase(case, env, Ctx, rps, impls, stats)
                        stats["probes"]["archive_directory_used_twice"] = 1
                if flavour == "C06":
                    viols = oracle_c06(case, env, c, rps, impls, stats)
                    if case.get("relayout") and c.escaped is None:
                        viols += relayout_phase(case, env, c, Ctx, rps, impls, stats)
                else:
                    viols = oracle_c11(case, env, c, rps, impls, stats)
                for name, rp in sorted(rps.items()):
                    vals = flatten(c.broker.get(rp))
                    log.append((name, len(vals), sorted(type(e).__name__ for e in c.broker.exceptions.get(rp, []))))
                def norm(p, _b=env.base, _w=env.top):
                    # scratch directory names are random: they are not part of the run's identity
                    _s = os.path.dirname(_w)
                    for a, tag in ((_b, "<B>"), (_b.lstrip("/"), "<B>"), (_w, "<W>"), (_w.lstrip("/"), "<W>"),
                                   (_s, "<S>"), (_s.lstrip("/"), "<S>"), (os.path.dirname(_s).lstrip("/") + "/", "<P>/")):
                        p = p.replace(a, tag)
                    return p
                # (C11: whether the content snapshot or the persister reads a file first depends on the position of
                # make_persister()'s closure in a set -- an address; reads are therefore not part of the run's identity there)
                skip = ("popen", "read-open") if flavour == "C11" else ("popen",)
                log.append(sorted(set((k, norm(p) if isinstance(p, str) else p) for k, p, _ in c.mon.events if k not in skip)))
                log.append(sorted(c.ctx.executed))
                for sp in case["specs"]:
                    stats["probes"]["factory_" + sp["factory"]] = stats["probes"].get("factory_" + sp["factory"], 0) + 1
    finally:
        env.close()
    dg = digest([log, [(v["oracle"], v["cls"]) for v in viols]])
    return {"digest": dg, "sig": dg, "violations": viols, "stats": stats, "nontrivial": len(case["specs"]) > 1,
            "sim_seconds": env.clock.elapsed(),
            "distinct": {"layouts": digest([case["files"], case["links"], case["specs"]])}}


def shrink(case):
    if case.get("cold"):
        from worlds import w2_cold
        for c in w2_cold.shrink_cold(case):
            yield c
        return

    def cp():
        return json.loads(json.dumps(case))
    n = len(case["specs"])
    for k in reversed(range(n)):
        if n > 1:
            c = cp()
            del c["specs"][k]
            c["corrupt"] = [x for x in c["corrupt"]]
            yield c
    for key in ("faults", "corrupt"):
        for k in range(len(case[key])):
            c = cp()
            del c[key][k]
            yield c
    for key in ("files", "commands", "components"):
        lst = case["rm_conf"].get(key, [])
        for k in range(len(lst)):
            c = cp()
            del c["rm_conf"][key][k]
            yield c
    for k in reversed(range(len(case["links"]))):
        c = cp()
        del c["links"][k]
        yield c
    for k, sp in enumerate(case["specs"]):
        if sp.get("save_as"):
            c = cp()
            c["specs"][k]["save_as"] = None
            yield c
        for fld in ("elems", "containers", "paths", "patterns"):
            if fld in sp and len(sp[fld]) > 1:
                for x in range(len(sp[fld])):
                    c = cp()
                    del c["specs"][k][fld][x]
                    yield c
        if sp.get("lines") and len(sp["lines"]) > 1:
            for x in reversed(range(len(sp["lines"]))):
                c = cp()
                del c["specs"][k]["lines"][x]
                yield c
    for rel in sorted(case["files"]):
        lines = case["files"][rel]["lines"]
        if len(lines) > 1:
            for x in reversed(range(len(lines))):
                c = cp()
                del c["files"][rel]["lines"][x]
                yield c
        for x, l in enumerate(lines):
            if len(l) > 12:
                c = cp()
                c["files"][rel]["lines"][x] = l[:len(l) // 2]
                yield c
    for cmd in sorted(case["table"]):
        out = case["table"][cmd]["out"]
        if out.count("\n") > 1:
            c = cp()
            c["table"][cmd]["out"] = out.split("\n", 1)[1]
            yield c
    if case["root_mode"] != "tree":
        c = cp()
        c["root_mode"] = "tree"
        yield c


COMMON_REAL = {
    "insights.core.spec_factory (all nine declarative factories, providers, validate(), serializers/deserializers)": "real",
    "insights.collect.apply_blacklist + insights.core.blacklist": "real",
    "insights.core.serde.Hydration (make_persister, dehydrate, hydrate) / insights.core.hydration.initialize_broker": "real",
    "insights.core.dr.run_all": "real",
    "insights.util.fs / insights.util.subproc / grep / cp / cat": "real (real processes)",
    "host file system": "real directory tree under a private scratch directory (tmpfs)",
    "host commands": "stub: SimHostContext(HostContext).check_output answers from a generated table; which() consults the table",
    "clock of dr / serde": "SimClock",
    "I/O monitor and fault injector": "sys.addaudithook (open, mkdir, rename, symlink, remove, Popen) + spec_factory.open / serde.open wrappers for torn writes",
    "insights.collect.collect() itself": "real in 25% of the cases (manifest naming the simulated context and the generated spec package) and in the cold-process cases (fresh interpreter, shipped DefaultSpecs, HostContext with patched command entry points); mirrored line by line (lines 217-267) otherwise",
}


class C06(Check):
    title = "Collection stays in its root, honours the deny list, writes only to the archive"
    quick = dict(runs=70000, wall=100)
    thorough = dict(runs=1500000, wall=1500)
    rule = ("case = simulated host: directory tree with nested dirs, file and directory symlinks (relative/absolute, chains of 3) to "
            "siblings, parents and absolute targets, a sibling directory whose name has the root's name as prefix (root2, rootX, "
            "root_backup, root.old), relative paths with 0-6 '..' segments, globs crossing symlinked directories; root = the tree "
            "(80%) or '/' with prefixed paths (20%); 1-12 specs over all nine declarative factories + an in-memory "
            "DatasourceProvider, save_as in file and directory form; deny list of files, commands (exact or prefix + space) and "
            "component names drawn from what the spec set touches, in 25% mixed with symbolic DefaultSpecs names at any position, "
            "bare command names denied under files: and commands: at once; "
            "in 15% a layout history: after the collection a directory the specs read from becomes a link leaving the root and "
            "the SAME context object evaluates the spec set again; 0.6% (thorough 1.2%) cold-process cases (W2c): the real collect() "
            "entered in a fresh child interpreter that has or has not imported insights.specs.default before, 1-5 shipped "
            "DefaultSpecs (simple commands / files) enabled on a recording HostContext, deny list of symbolic names (under files: "
            "or commands:), literal paths / commands / command prefixes and component names, with a positive control (what "
            "nothing denies is collected); oracle = (a) no FileProvider whose real location is outside "
            "the root, (b) no open / Popen / executed command matching the deny list, (c) every write-open, mkdir, rename, "
            "symlink and cp destination between persister registration and the return of run_all resolves beneath the output "
            "directory + before/after walk of the scratch area; non-trivial = >= 2 specs; distinct = digest of (results, I/O events, "
            "executed commands)")
    real_vs_stub = dict(COMMON_REAL, **{
        "cold-process cases (W2c): insights.collect.collect(), load_packages / apply_default_enabled / apply_configs / apply_blacklist, the shipped insights.specs.default.DefaultSpecs components, Hydration": "real, in a fresh child interpreter per case",
        "cold-process cases (W2c): HostContext.check_output / shell_out": "stub (class attributes patched in the child: commands are recorded and answered from a table, nothing of the sandbox is executed)",
    })
    assumptions = [
        "TOCTOU (a link swapped between validate() and the lazy load() of one provider) is not simulated; a layout that changes between two evaluations on one context object is",
        "deny-list entries name canonical spec paths; aliasing of a denied file through a differently named symlink is not asserted",
        "checks run as root: the 'unreadable file' branch of validate() cannot be produced on a real file system",
        "cleaner reports (/tmp/*.csv, rhsm facts) are written by generate_report, outside the persist window and outside the property",
    ]

    def __init__(self, prop):
        self.prop = prop

    def generate(self, st, tier):
        return gen_case(st, tier, "C06")

    def execute(self, case):
        return run_case(case, "C06")

    def shrink(self, case):
        return shrink(case)


class C11(Check):
    title = "What collection persists is what analysis loads"
    quick = dict(runs=70000, wall=100)
    thorough = dict(runs=1500000, wall=1500)
    rule = ("case = simulated host + spec set as in C06 (no containment tricks) with rich content: lines over printable ASCII, "
            "Latin-1, CJK, astral and zero-width code points, empty lines (leading, inner, several trailing), lines of up to 100k "
            "characters, 1.2% contents of 4097-24577 lines with empty lines on power-of-two boundaries, the characters "
            "str.splitlines() breaks at (FF, VT, NEL, FS, U+2028) inside lines but no CR / LF; all provider kinds (text file, a "
            "user sub-class of TextFileProvider, raw file, command, "
            "container file/command, in-memory datasource), save_as renamings, multi-output specs with 0-3 elements, failing "
            "commands / missing files / crashing datasources; fault sequences: (1) during persist the n-th write-open or mkdir "
            "below the archive fails with ENOSPC/EIO (audit hook), a data file write fails or is silently cut after k bytes, the "
            "metadata dump fails midway; (2) between collect and load any subset of entries is deleted, truncated at a seeded "
            "byte, replaced by non-JSON / empty / wrong-shape JSON, renamed to an unknown component, given an unknown provider "
            "type, or has its data file deleted / truncated, or an extra entry of an unknown component is added; oracle = strict "
            "field-by-field round trip for untouched entries, 'may be absent, never wrong' for damaged ones, load never raises; "
            "histories: the archive directory used twice with shorter content (15% of fault-free mirror cases), the archive "
            "loaded through a 'current' link that named a copy before (12%)")
    real_vs_stub = COMMON_REAL
    assumptions = [
        "content is valid Unicode without newline / carriage return inside a line and without lone surrogates (the property's own exclusion); the other characters str.splitlines() breaks at (FF, VT, NEL, FS, U+2028) ARE generated",
        "a data file truncated between the phases legitimately loads as a prefix of what was persisted",
        "persist-time faults make the whole archive 'damaged' for the oracle (only tolerance is demanded of it)",
    ]

    def __init__(self, prop):
        self.prop = prop

    def generate(self, st, tier):
        return gen_case(st, tier, "C11")

    def execute(self, case):
        return run_case(case, "C11")

    def shrink(self, case):
        return shrink(case)


def get_check(prop):
    return {"C06": C06, "C11": C11}[prop](prop)


# ------------------------------------------------------------------------------------------------
# end-to-end mode: collection WITH a Cleaner and filters (serves the end-to-end clauses of C07, C08, C10)
# ------------------------------------------------------------------------------------------------
E2E_FILTER_WORDS = ["ERROR", "link", "inet", "gizmo", "WARN", "ether"]


def gen_e2e(st, tier, flavour):
    """A W3 cleaner case (configuration + typed-segment specs) turned into a simulated host collection."""
    from worlds import w3_cleaner as w3
    c3 = w3.gen_case(st, tier, "C08")
    rp = st.prog
    rk = st.knob
    case = {"w": "w2e", "flavour": flavour, "cfg": c3["cfg"], "fqdn": c3["fqdn"], "keywords": c3["keywords"],
            "patterns": c3["patterns"], "regime": c3["regime"], "specs": [], "hash_seed": rk.getrandbits(32)}
    for i, s3 in enumerate(c3["specs"]):
        sp = {"name": "s%02d" % i, "factory": rp.choice(["simple_file", "simple_file", "simple_command", "memory", "glob_file"]),
              "lines": s3["lines"], "no_obfuscate": s3["no_obfuscate"], "no_redact": s3["no_redact"],
              "filterable": False, "filters": []}
        if sp["factory"] == "memory" and rk.random() < 0.5:
            sp["mem_ds"] = True
            sp["prov_no_obfuscate"] = [x for x in w3.ALL_OBF if rk.random() < 0.3]
        if sp["factory"] != "memory" and rk.random() < 0.4:
            sp["filterable"] = True
            if rk.random() < 0.8:
                sp["filters"] = rk.sample(E2E_FILTER_WORDS, rk.randint(1, 3))
                if flavour == "C10" and rk.random() < 0.8:
                    sp["filter_budget"] = rk.choice([1, 1, 2, 3])      # add_filter(..., max_match=n): budgets that DO run out
                    if len(sp["filters"]) >= 2:
                        # lines matching two filters: which budget such a line is charged to decides what is kept
                        extra = []
                        for k in range(rk.randint(3, 6)):
                            ws = rk.sample(sp["filters"], rk.choice([1, 2, 2]))
                            segs = [["mk", "~m%d~" % (900 + k)]]
                            for w in ws:
                                segs += [["d", " "], ["f", w]]
                            extra.append(segs)
                        sp["lines"] = list(sp["lines"]) + extra
        case["specs"].append(sp)
    if flavour == "C10" and rk.random() < 0.4:
        case["repeat"] = True          # the same collection once more in the same process (fresh cleaner, fresh archive)
    if rk.random() < 0.45:
        # collect() runs its specs on a thread pool only while obfuscation is off; ONE pool then serves run_all and the
        # persister's marshalling, and ONE Cleaner serves every pool thread
        case["cfg"] = dict((k, False) for k in case["cfg"])
        case["pool"] = {"seed": rk.getrandbits(32),
                        "policy": ({"kind": "walk", "p": rk.choice([0.02, 0.05, 0.1, 0.3])} if rk.random() < 0.7 else
                                   {"kind": "pct", "depth": rk.choice([1, 2, 3]), "horizon": rk.choice([200, 600, 2000])})}
        for sp in case["specs"]:
            if sp["factory"] == "glob_file" and rk.random() < 0.6:
                sp["nfiles"] = 2
            # neighbours with different exemptions: what one thread is exempt from, the next one is not
            if rk.random() < 0.3:
                sp["no_redact"] = not sp["no_redact"]
            if rk.random() < 0.3:
                sp["no_obfuscate"] = sorted(set(sp["no_obfuscate"]) ^ set(rk.sample(["keyword", "password"], rk.randint(1, 2))))
    return case


E2E_TRACED = None


def e2e_traced_files():
    global E2E_TRACED
    if E2E_TRACED is None:
        import insights.cleaner as c0
        import insights.cleaner.filters as c1
        import insights.cleaner.pattern as c2
        import insights.cleaner.keyword as c3
        import insights.cleaner.password as c4
        from insights.core import hydration as hy
        E2E_TRACED = tuple(m.__file__ for m in (c0, c1, c2, c3, c4, sf, serde, hy))
    return E2E_TRACED


PROV_EXEMPTIONS = {"on": True}


def e2e_stored(out, case, rps):
    """spec name -> list of stored data files (as text), read through the archive's own metadata."""
    res = {}
    meta = os.path.join(out, "meta_data")
    for sp in case["specs"]:
        mp = os.path.join(meta, dr.get_name(rps[sp["name"]]) + ".json")
        doc = json.load(open(mp)) if os.path.exists(mp) else None
        r = (doc or {}).get("results")
        items = r if isinstance(r, list) else ([r] if r else [])
        files = []
        for it in items:
            dp = os.path.join(out, "data", it["object"]["relative_path"])
            files.append(open(dp, encoding="utf-8").read() if os.path.isfile(dp) else None)
        res[sp["name"]] = files
    return res


def run_e2e(case, flavour):
    from worlds import w3_cleaner as w3
    stats = {"faults_fired": {}, "probes": {"e2e_collections": 1}}
    viols = []
    log = []
    env_case = {"root_mode": "tree", "files": {}, "outside": {}, "links": [], "table": {}, "specs": [], "rm_conf": {},
                "faults": [], "corrupt": [], "flavour": "E2E", "hash_seed": case.get("hash_seed", 0)}
    texts = {}
    for sp in case["specs"]:
        raw = [w3.text_of(segs) for segs in sp["lines"]]
        texts[sp["name"]] = raw
        s2 = {"name": sp["name"], "factory": sp["factory"], "save_as": None, "fail": False}
        if sp["factory"] == "simple_file":
            rel = "var/data/%s.txt" % sp["name"]
            env_case["files"][rel] = {"lines": raw, "nl": True}
            s2["path"] = "/" + rel
        elif sp["factory"] == "glob_file":
            for fname in ["a.conf", "b.conf"][:sp.get("nfiles", 1)]:
                env_case["files"]["var/globbed/%s/%s" % (sp["name"], fname)] = {"lines": raw, "nl": True}
            s2["patterns"] = ["/var/globbed/%s/*.conf" % sp["name"]]
        elif sp["factory"] == "simple_command":
            cmd = "/bin/show %s" % sp["name"]
            env_case["table"][cmd] = {"out": "\n".join(raw) + ("\n" if raw else ""), "rc": 0, "duration": 0.1}
            s2["cmd"] = cmd
        else:
            s2["lines"] = raw
            s2["relative_path"] = "memory/%s" % sp["name"]
            s2["mem_ds"] = sp.get("mem_ds", False)
            s2["prov_no_obfuscate"] = sp.get("prov_no_obfuscate")
        s2["rp_flags"] = {"filterable": sp["filterable"], "no_obfuscate": list(sp["no_obfuscate"]), "no_redact": sp["no_redact"]}
        env_case["specs"].append(s2)
    env = Env(env_case)
    try:
        env.materialise()
        with registry.scope():
            with Seams(env):
                Ctx, rps, impls = build_specs(env_case, env)
                for sp in case["specs"]:
                    if sp["filters"] and sp.get("filter_budget"):
                        filters.add_filter(rps[sp["name"]], list(sp["filters"]), max_match=sp["filter_budget"])
                    elif sp["filters"]:
                        filters.add_filter(rps[sp["name"]], list(sp["filters"]))
                cfg = w3.Cfg(**dict(case["cfg"]))
                from insights.cleaner import Cleaner

                def extra_collection(sub, prov_on):
                    """The same collection in the same process: fresh cleaner, fresh archive, fresh broker and context.
                    Provider-level exemption lists (ignored by contract when the provider names its datasource) are
                    left out when ``prov_on`` is False."""
                    out_x = os.path.join(env.base, sub, "insights-archive")
                    os.makedirs(out_x)
                    fs.touch(os.path.join(out_x, "insights_archive.txt"))
                    bx = dr.Broker()
                    cx = Ctx(env.root, env_case["table"], env.clock, env.tmp)
                    bx[Ctx] = cx
                    bx["cleaner"] = Cleaner(cfg, w3.rm_conf_of(case), fqdn=case["fqdn"])
                    bx["redact_config"] = w3.rm_conf_of(case)
                    bx["client_config"] = cfg
                    bx.add_observer(Hydration(out_x, cx).make_persister(set(rps.values())))
                    gx = {}
                    for r_ in rps.values():
                        gx.update(dr.get_dependency_graph(r_))
                    PROV_EXEMPTIONS["on"] = prov_on
                    try:
                        dr.run_all(gx, bx, None)
                        return e2e_stored(out_x, case, rps)
                    except HarnessError:
                        raise
                    except Exception as e:
                        return {"<raised>": [repr(e)]}
                    finally:
                        PROV_EXEMPTIONS["on"] = True

                baseline = None
                if case.get("repeat"):
                    baseline = extra_collection("out0", False)
                    stats["probes"]["e2e_collections_repeated_in_process"] = 1
                cleaner = Cleaner(cfg, w3.rm_conf_of(case), fqdn=case["fqdn"])
                fs.touch(os.path.join(env.out, "insights_archive.txt"))
                broker = dr.Broker()
                ctx = Ctx(env.root, env_case["table"], env.clock, env.tmp)
                broker[Ctx] = ctx
                broker["cleaner"] = cleaner
                broker["redact_config"] = w3.rm_conf_of(case)
                broker["client_config"] = cfg
                graph = {}
                for r in rps.values():
                    graph.update(dr.get_dependency_graph(r))
                pool = None
                if case.get("pool"):
                    from simkit.simpool import SimPool
                    pool = SimPool(random.Random(case["pool"]["seed"]), max_workers=None, policy=case["pool"]["policy"],
                                   traced_files=e2e_traced_files(), max_steps=60000)
                    stats["probes"]["e2e_pooled_collections"] = 1
                h = Hydration(env.out, ctx, pool=pool)
                broker.add_observer(h.make_persister(set(rps.values())))
                escaped = None
                try:
                    dr.run_all(graph, broker, pool)
                except HarnessError:
                    raise
                except Exception as e:
                    escaped = e
                finally:
                    if pool is not None:
                        pool.shutdown()
                        stats["probes"]["e2e_pool_switches"] = len(pool.switches)
                        if pool.capped:
                            stats["probes"]["e2e_pool_step_cap_reached"] = 1
                if escaped is not None:
                    viols.append(V(flavour + ".e2e", "collection-raised:%s" % type(escaped).__name__, "collection with a cleaner raised %r" % (escaped,)))
                final = w3.mappings(cleaner)
                issued = dict((k, set(o for _, o in v)) for k, v in final.items())
                pats = w3.py_patterns(case)
                short = case["fqdn"].split(".")[0]
                c = case["cfg"]
                meta = os.path.join(env.out, "meta_data")
                for sp in case["specs"]:
                    name = sp["name"]
                    fq = dr.get_name(rps[name])
                    mp = os.path.join(meta, fq + ".json")
                    doc = json.load(open(mp)) if os.path.exists(mp) else None
                    res = (doc or {}).get("results")
                    items = res if isinstance(res, list) else ([res] if res else [])
                    stored = []
                    for it in items:
                        dp = os.path.join(env.out, "data", it["object"]["relative_path"])
                        if os.path.isfile(dp):
                            stored.append(open(dp, encoding="utf-8").read().split("\n"))
                    log.append((name, [len(x) for x in stored], sorted(type(e).__name__ for e in broker.exceptions.get(rps[name], []))))
                    if flavour == "C10":
                        log.append(stored)          # what was stored is the output whose hash-seed independence C10 claims
                    raw = texts[name]
                    # ---- C07: a filterable spec without filters is not collected on a host at all
                    if sp["filterable"] and not sp["filters"]:
                        stats["probes"]["e2e_filterable_specs_without_filters"] = stats["probes"].get("e2e_filterable_specs_without_filters", 0) + 1
                        if stored or rps[name] in broker:
                            viols.append(V("C07.e2e", "collected-without-filters:%s" % sp["factory"],
                                           "filterable spec %s (%s) has no filter but was collected into the archive" % (name, sp["factory"])))
                        continue
                    if sp["filters"] and not sp.get("filter_budget"):
                        # ---- C07: no matching line is dropped (budgets are the default 10000, never used up here)
                        want = [l for l in raw if any(f in l for f in sp["filters"]) and
                                (sp["no_redact"] or not any((kd == "plain" and p in l) or (kd == "regex" and __import__("re").search(p, l))
                                                           for kd, p in pats))]
                        nfiles = sp.get("nfiles", 1) if sp["factory"] == "glob_file" else 1
                        if want and len(stored) < nfiles:
                            viols.append(V("C07.e2e", "matching-lines-but-not-stored:%s" % sp["factory"],
                                           "spec %s: %d line(s) match its filters %r but %d of %d file(s) were stored" % (
                                               name, len(want), sp["filters"], len(stored), nfiles)))
                        for lines in stored:
                            got = [l for l in lines if l]
                            if len(got) != len(want):
                                viols.append(V("C07.e2e", "matching-line-dropped:%s" % sp["factory"],
                                               "spec %s: %d input lines match the filters %r and no exclusion pattern, %d lines were stored: %r" % (
                                                   name, len(want), sp["filters"], len(got), got[:3])))
                                break
                    for lines in stored:
                        # ---- C10: never stored empty
                        if not any(l.strip() for l in lines):
                            viols.append(V("C10.e2e", "spec-stored-empty:%s" % sp["factory"], "spec %s was stored with no non-blank line: %r" % (name, lines)))
                        # ---- C07: kept non-empty lines contain a filter
                        if sp["filters"]:
                            stats["probes"]["e2e_filtered_specs_stored"] = stats["probes"].get("e2e_filtered_specs_stored", 0) + 1
                            for l in lines:
                                if l and not any(f in l for f in sp["filters"]):
                                    viols.append(V("C07.e2e", "stored-line-without-filter:%s" % sp["factory"], "spec %s: stored line %r contains none of %r" % (name, l, sp["filters"])))
                                    break
                        # ---- C08: nothing sensitive in what was written
                        noobf = sp["no_obfuscate"]
                        stats["probes"]["e2e_data_files_scanned"] = stats["probes"].get("e2e_data_files_scanned", 0) + 1
                        ips = w3.planted({"specs": [sp]}, ("ip",))
                        macs = w3.planted({"specs": [sp]}, ("mac",))
                        hosts = w3.planted({"specs": [sp]}, ("host", "fqdn"))
                        secrets = [s[2] for segs in sp["lines"] for s in segs if s[0] == "pw"]
                        abut = set()
                        for segs in sp["lines"]:
                            for j, s in enumerate(segs):
                                if s[0] == "mac" and (w3.text_of(segs[:j])[-1:] in (":", "-") or w3.text_of(segs[j + 1:])[:1] in (":", "-")):
                                    abut.add(s[1])
                        for o in lines:
                            if not sp["no_redact"]:
                                for kind, p in pats:
                                    if (kind == "plain" and p in o) or (kind == "regex" and __import__("re").search(p, o)):
                                        viols.append(V("C08.e2e", "pattern-line-written:%s" % sp["factory"], "archive line %r matches exclusion pattern %r" % (o, p)))
                            if "keyword" not in noobf:
                                for k in case["keywords"]:
                                    if k in o:
                                        viols.append(V("C08.e2e", "keyword-written:%s" % sp["factory"], "keyword %r written to the archive in %r" % (k, o)))
                            if "password" not in noobf:
                                for sec in secrets:
                                    if sec in o:
                                        viols.append(V("C08.e2e", "password-secret-written:%s" % sp["factory"], "secret %r written to the archive in %r" % (sec, o)))
                            if c["obfuscate"] and "ip" not in noobf:
                                for ip in ips:
                                    if ip not in issued["ip"] and w3.occurs_token(ip, o, "0123456789."):
                                        viols.append(V("C08.e2e", "ipv4-written:%s" % sp["factory"], "address %r written to the archive in %r" % (ip, o)))
                            if c["obfuscate"] and c["obfuscate_hostname"] and "hostname" not in noobf:
                                for hname in hosts + [case["fqdn"], short]:
                                    if hname not in issued["host"] and hname in o:
                                        viols.append(V("C08.e2e", "hostname-written:%s" % sp["factory"], "host name %r written to the archive in %r" % (hname, o)))
                            if c["obfuscate"] and c["obfuscate_mac"] and "mac" not in noobf:
                                for m in macs:
                                    if m not in issued["mac"] and m not in abut and w3.occurs_token(m, o, "0123456789abcdefABCDEF_" + w3.WORD):
                                        viols.append(V("C08.e2e", "mac-written:%s" % sp["factory"], "MAC %r written to the archive in %r" % (m, o)))
                if case.get("repeat") and escaped is None and baseline is not None:
                    # what the collection under test stored, and the same collection once more afterwards
                    for tag, other in (("the second (the collection under test)", e2e_stored(env.out, case, rps)),
                                       ("the third", extra_collection("out3", False))):
                        if other != baseline:
                            bad = sorted(k for k in set(baseline) | set(other) if baseline.get(k) != other.get(k))
                            k0 = bad[0]
                            viols.append(V("C10.e2e", "repeated-collection-differs",
                                           "the same specs, content and configuration collected several times in one process (fresh "
                                           "cleaner, fresh archive each time): %s differs between the first collection and %s: %r vs %r" % (
                                               bad, tag, (baseline.get(k0) or [None])[:1], (other.get(k0) or [None])[:1])))
                            break
    finally:
        env.close()
    viols = [v for v in viols if v["oracle"].startswith(flavour)]
    dg = digest([log, [(v["oracle"], v["cls"]) for v in viols]])
    return {"digest": dg, "sig": dg, "violations": viols, "stats": stats, "nontrivial": True, "sim_seconds": env.clock.elapsed(),
            "distinct": {}}
