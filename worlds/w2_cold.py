"""World W2c -- host collection entered in a COLD process (C06, deny-list clause).

Every other world imports its spec package -- and ``insights.specs.default`` -- before the first case, so the state
of the process when ``insights.collect.collect()`` is entered is always "everything loaded".  The real client enters
``collect()`` in a fresh process and lets the manifest's ``plugins.packages`` load the default specs.  What the process
has imported so far is a piece of history like any other; this world makes it a dimension of the case:

  case["cold"] = {"preimport": [...modules imported before collect()...], "enabled": [default spec names],
                  "rm_conf": {"files": [...], "commands": [...], "components": [...]}}

One case = one child interpreter (``python -c 'from worlds import w2_cold; w2_cold.child_main()'``, PYTHONHASHSEED
fixed by the case) that imports nothing of ``insights.specs`` unless the case says so, builds a small host tree,
calls the REAL ``collect.collect()`` with a manifest naming ``insights.specs.default`` as the package to load and a
handful of shipped DefaultSpecs (simple commands and simple files) as the enabled components, under a recording
HostContext (its command entry points are patched: commands are answered from a table, never executed) and the audit-hook I/O monitor.  The parent applies
the oracle: a spec denied by the user's list -- by its symbolic name under files: or commands:, by its component name,
by its literal path, by its literal command (equal or followed by a blank) -- is neither executed nor opened, and a
positive control: an enabled spec that nothing denies IS executed / opened (so a harness that sees nothing cannot pass).
"""
import json
import os
import shutil
import subprocess
import sys
import tempfile

from simkit import VERIF_DIR, REPO, HarnessError

# shipped default specs simple enough to be answered by a table: name -> (kind, literal)
POOL = {
    "date": ("cmd", "/bin/date"),
    "date_utc": ("cmd", "/bin/date --utc"),
    "hostname": ("cmd", "/bin/hostname -f"),
    "hostname_default": ("cmd", "/bin/hostname"),
    "hostname_short": ("cmd", "/bin/hostname -s"),
    "uptime": ("cmd", "/usr/bin/uptime"),
    "cmdline": ("file", "/proc/cmdline"),
    "cpuinfo": ("file", "/proc/cpuinfo"),
    "fstab": ("file", "/etc/fstab"),
    "hosts": ("file", "/etc/hosts"),
    "redhat_release": ("file", "/etc/redhat-release"),
    "resolv_conf": ("file", "/etc/resolv.conf"),
}
PREIMPORTS = [[], [], [], [], ["insights.specs"], ["insights.specs.default"], ["insights.specs", "insights.core.spec_factory"],
              ["insights.specs.default", "insights.specs.manifests"]]


def gen_cold(st):
    rp, rk = st.prog, st.knob
    names = sorted(POOL)
    enabled = sorted(rp.sample(names, rp.randint(1, 5)))
    rm = {"files": [], "commands": [], "components": []}
    for _ in range(rp.randint(1, 4)):
        n = rp.choice(enabled) if rp.random() < 0.8 else rp.choice(names)
        kind, lit = POOL[n]
        r = rp.random()
        if r < 0.45:
            # the symbolic name, under either list (both are looked up as DefaultSpecs names)
            rm[rp.choice(["files", "commands"]) if rp.random() < 0.3 else ("files" if kind == "file" else "commands")].append(n)
        elif r < 0.75:
            if kind == "file":
                rm["files"].append(lit)
            else:
                rm["commands"].append(lit if rp.random() < 0.6 else lit.split(" ")[0])
        elif r < 0.9:
            rm["components"].append("insights.specs.default.DefaultSpecs." + n)
        else:
            # an entry that denies nothing that is enabled: a literal that is only a textual prefix
            rm["commands" if kind == "cmd" else "files"].append(lit[:-1])
    for k in list(rm):
        seen = []
        for x in rm[k]:
            if x not in seen:
                seen.append(x)
        rm[k] = seen
    return {"w": "w2c", "flavour": "C06",
            "cold": {"preimport": rk.choice(PREIMPORTS), "enabled": enabled, "rm_conf": rm,
                     "child_hashseed": rk.randrange(1, 1 << 16)}}


def denied(name, rm):
    """The model: is default spec ``name`` denied by the user's list?  (blacklist.py: exact path; command equal or
    followed by a blank; collect.py: an identifier naming a DefaultSpecs attribute under files:/commands: skips the
    component; components: lists component names)"""
    kind, lit = POOL[name]
    if name in rm.get("files", []) or name in rm.get("commands", []):
        return "symbolic name"
    if "insights.specs.default.DefaultSpecs." + name in rm.get("components", []):
        return "component name"
    lst = rm.get("files", []) if kind == "file" else rm.get("commands", [])
    for f in lst:
        if f in POOL:
            continue
        if lit == f or lit.startswith(f + " "):
            return "literal"
    return None


# ------------------------------------------------------------------------------------------------ child
def child_main():
    """Runs in the fresh interpreter.  Reads the case from argv[1], prints one JSON line."""
    case = json.load(open(sys.argv[1]))["cold"]
    if REPO not in sys.path[:1]:
        sys.path.insert(0, REPO)
    import logging
    logging.disable(logging.CRITICAL)
    import insights
    if not os.path.realpath(insights.__file__).startswith(REPO + os.sep):
        print(json.dumps({"harness_error": "insights imported from %s" % insights.__file__}))
        return
    import importlib
    for m in case["preimport"]:
        importlib.import_module(m)
    loaded_before = sorted(m for m in ("insights.specs", "insights.specs.default") if m in sys.modules)
    from simkit.iomon import Monitor
    from insights import collect as collect_mod
    base = tempfile.mkdtemp(prefix="w2c-", dir=os.environ.get("VERIF_SCRATCH_DIR") or ("/dev/shm" if os.access("/dev/shm", os.W_OK) else "/var/tmp"))
    out = {"loaded_before": loaded_before}
    try:
        tree = os.path.join(base, "host")
        for name, (kind, lit) in sorted(POOL.items()):
            if kind == "file":
                p = os.path.join(tree, lit.lstrip("/"))
                os.makedirs(os.path.dirname(p), exist_ok=True)
                with open(p, "w") as f:
                    f.write("content of %s\nsecond line\n" % name)
        os.makedirs(os.path.join(base, "work"))
        manifest = {"version": 0,
                    "client": {"context": {"class": "insights.core.context.HostContext", "args": {"root": tree, "timeout": 10}},
                               "blacklist": {"files": [], "commands": [], "patterns": [], "keywords": []},
                               "persist": [{"name": "insights.specs.Specs." + n, "enabled": True} for n in case["enabled"]],
                               "run_strategy": {"name": "serial", "args": {"max_workers": None}}},
                    "plugins": {"default_component_enabled": False, "packages": ["insights.specs.default"],
                                "configs": [{"name": pre + n, "enabled": True} for n in case["enabled"]
                                            for pre in ("insights.specs.Specs.", "insights.specs.default.DefaultSpecs.")]}}
        executed = []
        _patch_host_context(executed)
        escaped = None
        with Monitor(root=base) as mon:
            try:
                collect_mod.collect(client_config=None, rm_conf=json.loads(json.dumps(case["rm_conf"])),
                                    tmp_path=os.path.join(base, "work"), archive_name="insights-archive", manifest=manifest)
            except Exception as e:
                escaped = "%s: %s" % (type(e).__name__, e)
        out["escaped"] = escaped
        out["executed"] = list(executed)
        out["popen"] = [e[2] for e in mon.events if e[0] == "popen"]
        out["opened"] = sorted(set(p[len(tree):] for k, p, _ in mon.events if k == "read-open" and p.startswith(tree + os.sep)))
        stored = []
        for dp, dn, fn in os.walk(os.path.join(base, "work", "insights-archive", "data")):
            for f in fn:
                stored.append(os.path.join(dp, f)[len(os.path.join(base, "work", "insights-archive", "data")):])
        out["stored"] = sorted(stored)
    finally:
        shutil.rmtree(base, ignore_errors=True)
    print("COLD-RESULT " + json.dumps(out, sort_keys=True))


def _patch_host_context(executed):
    """The seam: HostContext's two command entry points are replaced (class attributes) by recorders that answer
    from a table -- the default specs are bound to the class HostContext itself, so a sub-class would not do."""
    from insights.core.context import HostContext

    def flat(cmd):
        return cmd if isinstance(cmd, str) else " | ".join(" ".join(c) if isinstance(c, (list, tuple)) else str(c) for c in cmd)

    def check_output(self, cmd, timeout=None, keep_rc=False, env=None, signum=None):
        cmd = flat(cmd)
        executed.append(cmd)
        outp = "output of %s\nline two\n" % cmd
        return (0, outp) if keep_rc else outp

    def shell_out(self, cmd, split=True, timeout=None, keep_rc=False, env=None, signum=None):
        cmd = flat(cmd)
        executed.append(cmd)
        outp = ["output of %s" % cmd, "line two"] if split else "output of %s\nline two\n" % cmd
        return (0, outp) if keep_rc else outp
    HostContext.check_output = check_output
    HostContext.shell_out = shell_out


# ------------------------------------------------------------------------------------------------ parent
def V(oracle, cls, message):
    return {"oracle": oracle, "cls": cls, "message": message}


def run_cold(case):
    from simkit.seeds import digest
    cold = case["cold"]
    stats = {"faults_fired": {}, "probes": {"cold_process_collections": 1}}
    fd, path = tempfile.mkstemp(prefix="w2c-case-", suffix=".json",
                                dir=os.environ.get("VERIF_SCRATCH_DIR") or ("/dev/shm" if os.access("/dev/shm", os.W_OK) else "/var/tmp"))
    os.close(fd)
    try:
        json.dump(case, open(path, "w"))
        env = dict(os.environ, PYTHONHASHSEED=str(cold.get("child_hashseed", 1)), PYTHONDONTWRITEBYTECODE="1", VERIF_REPO=REPO)
        code = "import sys; sys.path.insert(0, %r); from worlds import w2_cold; w2_cold.child_main()" % VERIF_DIR
        r = subprocess.run([sys.executable, "-c", code, path], env=env, stdout=subprocess.PIPE, stderr=subprocess.PIPE, timeout=120)
    finally:
        try:
            os.remove(path)
        except OSError:
            pass
    lines = [l for l in r.stdout.decode("utf-8", "replace").splitlines() if l.startswith("COLD-RESULT ")]
    if r.returncode != 0 or not lines:
        raise HarnessError("cold child failed rc=%s: %s" % (r.returncode, r.stderr.decode("utf-8", "replace")[-800:]))
    res = json.loads(lines[-1][len("COLD-RESULT "):])
    if res.get("harness_error"):
        raise HarnessError(res["harness_error"])
    viols = []
    rm = cold["rm_conf"]
    if "insights.specs.default" not in res["loaded_before"]:
        stats["probes"]["collect_entered_before_default_specs_were_imported"] = 1
    if res["escaped"]:
        viols.append(V("C06.escape", "escape:cold:%s" % res["escaped"].split(":")[0], "collect() raised %s" % res["escaped"]))
    ran = list(res["executed"]) + [" ".join(a) for a in res["popen"] if a]
    for n in cold["enabled"]:
        kind, lit = POOL[n]
        why = denied(n, rm)
        if kind == "cmd":
            hit = [c for c in ran if c == lit]
        else:
            hit = [p for p in res["opened"] if p == lit]
        if why:
            stats["probes"]["denied_default_specs_checked"] = stats["probes"].get("denied_default_specs_checked", 0) + 1
            if hit:
                viols.append(V("C06.denylist", "cold:%s-%s:%s" % ("executed" if kind == "cmd" else "opened", kind, why.replace(" ", "-")),
                               "default spec %s (%s) is denied by the user's list (%s: %r) but %s %s; modules loaded before "
                               "collect(): %s" % (n, lit, why, rm, "was executed:" if kind == "cmd" else "was opened:", hit[:2],
                                                  res["loaded_before"])))
        else:
            stats["probes"]["allowed_default_specs_checked"] = stats["probes"].get("allowed_default_specs_checked", 0) + 1
            if not hit and not res["escaped"]:
                # positive control (harness): what nothing denies must have been collected, or this world sees nothing
                raise HarnessError("cold world: enabled spec %s (%s) that nothing denies was not collected: %r" % (n, lit, res))
    log = [res["loaded_before"], sorted(res["executed"]), res["opened"], res["stored"], res["escaped"]]
    dg = digest([log, [(v["oracle"], v["cls"]) for v in viols]])
    return {"digest": dg, "sig": dg, "violations": viols, "stats": stats, "nontrivial": True, "sim_seconds": 0.0,
            "distinct": {"layouts": digest(cold)}}


def shrink_cold(case):
    def cp():
        return json.loads(json.dumps(case))
    cold = case["cold"]
    for key in ("files", "commands", "components"):
        for k in range(len(cold["rm_conf"][key])):
            c = cp()
            del c["cold"]["rm_conf"][key][k]
            yield c
    if len(cold["enabled"]) > 1:
        for k in range(len(cold["enabled"])):
            c = cp()
            del c["cold"]["enabled"][k]
            yield c
    if cold["preimport"]:
        c = cp()
        c["cold"]["preimport"] = cold["preimport"][:-1]
        yield c
